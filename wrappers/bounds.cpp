// wrappers: binomial_bounds (C06)
#include "binomial_bounds.hpp"
using namespace datasketches;
WRAP int w_bb_lower(uint64_t n, double theta, uint32_t k, double* out) { try { *out = binomial_bounds::get_lower_bound(n, theta, k); return 0; } catch (...) { return 1; } }
WRAP int w_bb_upper(uint64_t n, double theta, uint32_t k, double* out) { try { *out = binomial_bounds::get_upper_bound(n, theta, k); return 0; } catch (...) { return 1; } }
