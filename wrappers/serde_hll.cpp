// wrappers: hll_sketch bytes-path images (C09 / C11): an HLL_4 sketch in HLL mode (started full-size, lg_k = 4) that received coupons
// through its register array (non-virtual call), serialized compact or updatable; deserialize + observable view.
#include "hll.hpp"
#include "../wrappers/serde_common.hpp"
using namespace datasketches;
typedef std::allocator<uint8_t> A;
static void view(const hll_sketch& s, gen_view* v) {
  for (int i = 0; i < 16; i++) v->f[i] = 0;
  v->f[4] = s.get_lg_config_k(); v->f[7] = s.is_empty(); v->f[13] = (uint64_t)s.get_target_type(); v->f[14] = (uint64_t)s.sketch_impl->getCurMode();
  if (s.sketch_impl->getCurMode() == HLL) {
    const HllArray<A>* a = static_cast<const HllArray<A>*>(s.sketch_impl);
    uint64_t sum = 0; uint32_t k = 1u << a->getLgConfigK();
    for (uint32_t i = 0; i < k; i++) sum = sum * 67 + HllArray<A>::const_iterator::get_value(a->hllByteArr_.data(), i, a->getTgtHllType(), a->getAuxHashMap(), a->curMin_);
    v->f[5] = sum; v->f[2] = a->curMin_; v->f[3] = a->numAtCurMin_;
  }
}
// kind 0: compact image, 1: updatable image; coupons c[0..nc-1]
WRAP int64_t w_hll4_image(uint8_t* out, uint64_t cap, const uint64_t* coupons, uint32_t nc, uint32_t kind, gen_view* v) {
  try {
    hll_sketch s(4, HLL_4, true);
    auto arr = static_cast<Hll4Array<A>*>(s.sketch_impl);
    for (uint32_t i = 0; i < nc; i++) arr->Hll4Array<A>::couponUpdate((uint32_t)coupons[i]);
    view(s, v);
    auto b = kind ? s.serialize_updatable() : s.serialize_compact();
    v->f[9] = b.size(); v->f[10] = fnv(b.data(), b.size()); v->f[12] = kind ? s.get_updatable_serialization_bytes() : s.get_compact_serialization_bytes();
    return emit(b, out, cap);
  } catch (...) { return -1; }
}
WRAP int w_hll4_deser(const uint8_t* buf, uint64_t n, uint32_t kind, gen_view* v) {
  try { auto s = hll_sketch::deserialize(buf, n); view(s, v);
        auto b = kind ? s.serialize_updatable() : s.serialize_compact(); v->f[9] = b.size(); v->f[10] = fnv(b.data(), b.size()); v->f[12] = kind ? s.get_updatable_serialization_bytes() : s.get_compact_serialization_bytes();
        return 0; } catch (...) { return 1; }
}
