// wrappers: var_opt_sketch<uint32_t> in its exact (warm-up) phase (C16)
#include "var_opt_sketch.hpp"
#include "../wrappers/serde_common.hpp"
using namespace datasketches;
typedef var_opt_sketch<uint32_t> VO;
WRAP VO* w_vo_new(uint32_t k) { try { return new VO(k); } catch (...) { return nullptr; } }
WRAP void w_vo_delete(VO* s) { delete s; }
WRAP int w_vo_update(VO* s, uint32_t item, uint64_t wbits) { try { s->update(item, bitsd(wbits)); return 0; } catch (...) { return 1; } }
WRAP uint64_t w_vo_n(const VO* s) { return s->get_n(); }
WRAP uint32_t w_vo_k(const VO* s) { return s->get_k(); }
WRAP uint32_t w_vo_num_samples(const VO* s) { return s->get_num_samples(); }
WRAP uint8_t w_vo_is_empty(const VO* s) { return s->is_empty(); }
WRAP int32_t w_vo_items(const VO* s, uint32_t* items, uint64_t* wbits, uint32_t cap) { try { uint32_t n = 0; for (auto p : *s) { if (n < cap) { items[n] = p.first; wbits[n] = dbits(p.second); } ++n; } return (int32_t)n; } catch (...) { return -1; } }
