// wrappers: var_opt_sketch<uint32_t> in its exact (warm-up) phase (C16)
#include "var_opt_sketch.hpp"
#include "var_opt_union.hpp"
#include "../wrappers/serde_common.hpp"
using namespace datasketches;
typedef var_opt_sketch<uint32_t> VO;
WRAP VO* w_vo_new(uint32_t k) { try { return new VO(k); } catch (...) { return nullptr; } }
WRAP void w_vo_delete(VO* s) { delete s; }
WRAP int w_vo_update(VO* s, uint32_t item, uint64_t wbits) { try { s->update(item, bitsd(wbits)); return 0; } catch (...) { return 1; } }
WRAP uint64_t w_vo_n(const VO* s) { return s->get_n(); }
WRAP uint32_t w_vo_k(const VO* s) { return s->get_k(); }
WRAP uint32_t w_vo_num_samples(const VO* s) { return s->get_num_samples(); }
WRAP uint8_t w_vo_is_empty(const VO* s) { return s->is_empty(); }
WRAP int32_t w_vo_items(const VO* s, uint32_t* items, uint64_t* wbits, uint32_t cap) { try { uint32_t n = 0; for (auto p : *s) { if (n < cap) { items[n] = p.first; wbits[n] = dbits(p.second); } ++n; } return (int32_t)n; } catch (...) { return -1; } }
// unit level: var_opt_union threshold bookkeeping (resolve_tau keeps the largest input threshold as numerator / denominator)
typedef var_opt_union<uint32_t> VOU;
WRAP VOU* w_vou_new(uint32_t max_k) { try { return new VOU(max_k); } catch (...) { return nullptr; } }
WRAP void w_vou_delete(VOU* u) { delete u; }
WRAP void w_vou_set_outer(VOU* u, uint64_t numer_bits, uint64_t denom) { u->outer_tau_numer_ = bitsd(numer_bits); u->outer_tau_denom_ = denom; }
WRAP uint64_t w_vou_numer(const VOU* u) { return dbits(u->outer_tau_numer_); }
WRAP uint64_t w_vou_denom(const VOU* u) { return u->outer_tau_denom_; }
WRAP uint64_t w_vou_outer_tau(const VOU* u) { return dbits(u->get_outer_tau()); }
WRAP void w_vo_set_r(VO* s, uint32_t r, uint64_t total_wt_r_bits) { s->r_ = r; s->total_wt_r_ = bitsd(total_wt_r_bits); }
WRAP uint64_t w_vo_tau(const VO* s) { return dbits(s->get_tau()); }
WRAP int w_vou_resolve_tau(VOU* u, const VO* s) { try { u->resolve_tau(*s); return 0; } catch (...) { return 1; } }
