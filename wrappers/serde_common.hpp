// helpers shared by the serde wrapper TUs
#pragma once
#include "../wrappers/views.h"
#include <cstring>
// positional checksum of an image (linear: no 64-bit products of symbolic data, which SAT back ends cannot digest): sum of (i+1)*byte in the
// low half, xor of position-rotated bytes in the high half
static inline uint64_t fnv(const uint8_t* p, size_t n) { uint64_t s = 0, x = 0; for (size_t i = 0; i < n; i++) { s += (uint64_t)(i + 1) * p[i]; x ^= (uint64_t)p[i] << ((i * 5) % 24); } return (s & 0xffffffffULL) | (x << 32); }
template<typename V> static inline int64_t emit(const V& v, uint8_t* out, uint64_t cap) { if (v.size() > cap) return -2; for (size_t i = 0; i < v.size(); i++) out[i] = v[i]; return (int64_t)v.size(); }
static inline uint64_t dbits(double d) { uint64_t b; std::memcpy(&b, &d, 8); return b; }
static inline double bitsd(uint64_t b) { double d; std::memcpy(&d, &b, 8); return d; }
