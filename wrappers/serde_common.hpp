// helpers shared by the serde wrapper TUs
#pragma once
#include "../wrappers/views.h"
#include <cstring>
static inline uint64_t fnv(const uint8_t* p, size_t n) { uint64_t h = 1469598103934665603ULL; for (size_t i = 0; i < n; i++) { h ^= p[i]; h *= 1099511628211ULL; } return h; }
template<typename V> static inline int64_t emit(const V& v, uint8_t* out, uint64_t cap) { if (v.size() > cap) return -2; for (size_t i = 0; i < v.size(); i++) out[i] = v[i]; return (int64_t)v.size(); }
static inline uint64_t dbits(double d) { uint64_t b; std::memcpy(&b, &d, 8); return b; }
static inline double bitsd(uint64_t b) { double d; std::memcpy(&d, &b, 8); return d; }
