// wrappers: frequent_items_sketch<uint64_t> bytes-path serde (C09, C11); items hashed by the library's default std::hash
#include "frequent_items_sketch.hpp"
#include "../wrappers/serde_common.hpp"
using namespace datasketches;
typedef frequent_items_sketch<uint64_t> S;
static void view(const S& s, gen_view* v) {
  for (int i = 0; i < 16; i++) v->f[i] = 0;
  v->f[0] = s.get_total_weight(); v->f[1] = s.get_num_active_items(); v->f[4] = s.get_maximum_error(); v->f[7] = s.is_empty();
  v->f[6] = v->f[0]; v->f[11] = v->f[1];
  auto b = s.serialize(); v->f[9] = b.size(); v->f[12] = s.get_serialized_size_bytes();   // map order is unspecified: bytes compared by size only
}
WRAP int64_t w_fi_image(uint8_t* out, uint64_t cap, const uint64_t* vals, uint32_t nv, uint32_t header, gen_view* v) {
  try { S s(3); for (uint32_t i = 0; i < nv; i++) s.update(vals[i] >> 8, (uint64_t)(vals[i] & 0xff) + 1); view(s, v); return emit(s.serialize(header), out, cap); } catch (...) { return -1; }
}
WRAP int w_fi_deser(const uint8_t* buf, uint64_t n, gen_view* v) { try { auto s = S::deserialize(buf, n); view(s, v); return 0; } catch (...) { return 1; } }
