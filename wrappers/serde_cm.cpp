// wrappers: count_min_sketch<uint64_t> bytes-path serde (C09, C11). Hash = harness model (VERIF_STUB_HASH).
#include "count_min.hpp"
#include "../wrappers/serde_common.hpp"
using namespace datasketches;
typedef count_min_sketch<uint64_t> S;
static void view(const S& s, gen_view* v) {
  for (int i = 0; i < 16; i++) v->f[i] = 0;
  v->f[0] = s.get_total_weight(); v->f[4] = s.get_num_hashes(); v->f[13] = s.get_num_buckets(); v->f[7] = s.is_empty(); v->f[14] = s.get_seed();
  uint64_t cnt = 0, sum = 0; for (auto c : s) { sum = sum * 31 + c; ++cnt; } v->f[5] = sum; v->f[11] = cnt; v->f[1] = cnt; v->f[6] = v->f[0];
  auto b = s.serialize(); v->f[9] = b.size(); v->f[10] = fnv(b.data(), b.size()); v->f[12] = s.get_serialized_size_bytes();
}
WRAP int64_t w_cm_image(uint8_t* out, uint64_t cap, const uint64_t* vals, uint32_t nv, uint32_t header, gen_view* v) {
  try { S s(2, 3, 123); for (uint32_t i = 0; i < nv; i++) s.update(vals[i] >> 8, (uint64_t)(vals[i] & 0xff)); view(s, v); return emit(s.serialize(header), out, cap); } catch (...) { return -1; }
}
WRAP int w_cm_deser(const uint8_t* buf, uint64_t n, gen_view* v) { try { auto s = S::deserialize(buf, n, 123); view(s, v); return 0; } catch (...) { return 1; } }
