// wrappers: tdigest<double> bytes-path deserializer on images written by the harness from the documented layout (C10, C11),
// and serialize(header) size accounting (C09)
#include "tdigest.hpp"
#include "../wrappers/serde_common.hpp"
using namespace datasketches;
typedef tdigest<double> S;
WRAP int w_td_deser(const uint8_t* buf, uint64_t n, gen_view* v) {
  try {
    auto s = S::deserialize(buf, n);
    for (int i = 0; i < 16; i++) v->f[i] = 0;
    v->f[0] = s.get_total_weight(); v->f[4] = s.get_k(); v->f[7] = s.is_empty();
    if (!s.is_empty()) { v->f[2] = dbits(s.get_min_value()); v->f[3] = dbits(s.get_max_value()); }
    v->f[12] = s.get_serialized_size_bytes(true);
    return 0;
  } catch (...) { return 1; }
}
// serialize(header, with_buffer) of a sketch holding nv buffered values: returns the vector size, writes the bytes
WRAP int64_t w_td_serialize(uint8_t* out, uint64_t cap, const uint64_t* vals, uint32_t nv, uint32_t header, uint64_t* advertised) {
  try { S s(10); for (uint32_t i = 0; i < nv; i++) s.update(bitsd(vals[i])); *advertised = s.get_serialized_size_bytes(true); return emit(s.serialize(header, true), out, cap); } catch (...) { return -1; }
}
