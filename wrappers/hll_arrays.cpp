// wrappers: HLL register arrays at the unit level (C03): Hll4Array / Hll6Array / Hll8Array driven with coupons.
// All calls are qualified (non-virtual): cbmc replaces a virtual call by a case split over every function of the same type, which
// drags list/set promotion and copy code into every update.
#include "hll.hpp"
using namespace datasketches;
typedef std::allocator<uint8_t> A;
typedef Hll4Array<A> H4; typedef Hll6Array<A> H6; typedef Hll8Array<A> H8;
#define ARR(P, T, TYPE) \
WRAP T* w_##P##_new(uint8_t lg_k) { try { return new T(lg_k, true, A()); } catch (...) { return nullptr; } } \
WRAP void w_##P##_delete(T* a) { a->T::~T(); ::operator delete(a); } \
WRAP int w_##P##_coupon(T* a, uint32_t coupon) { try { auto r = a->T::couponUpdate(coupon); return r == a ? 0 : 2; } catch (...) { return 1; } } \
/* logical register value of one slot, computed by the library's own accessor used by its iterators */ \
WRAP int w_##P##_value(const T* a, uint32_t slot) { try { return HllArray<A>::const_iterator::get_value(a->hllByteArr_.data(), slot, TYPE, a->T::getAuxHashMap(), a->curMin_); } catch (...) { return -1; } } \
WRAP uint8_t w_##P##_is_empty(const T* a) { return a->HllArray<A>::isEmpty(); } \
WRAP uint8_t w_##P##_cur_min(const T* a) { return a->curMin_; } \
WRAP uint32_t w_##P##_num_at_cur_min(const T* a) { return a->numAtCurMin_; }
ARR(h4, H4, target_hll_type::HLL_4)
ARR(h6, H6, target_hll_type::HLL_6)
ARR(h8, H8, target_hll_type::HLL_8)
// conversion constructors (used by hll_sketch(const hll_sketch&, target_hll_type))
WRAP H8* w_h8_from_h4(const H4* a) { try { return new H8(*a); } catch (...) { return nullptr; } }
WRAP H6* w_h6_from_h4(const H4* a) { try { return new H6(*a); } catch (...) { return nullptr; } }
WRAP H4* w_h4_from_h8(const H8* a) { try { return new H4(*a); } catch (...) { return nullptr; } }
// C04 (unit level): the register merge the union gadget (always HLL_8) performs for an HLL-mode input of any width and any lg_k >= its own
WRAP int w_h8_merge_h8(H8* dst, const H8* src) { try { dst->H8::mergeHll(*src); return 0; } catch (...) { return 1; } }
WRAP int w_h8_merge_h6(H8* dst, const H6* src) { try { dst->H8::mergeHll(*src); return 0; } catch (...) { return 1; } }
WRAP int w_h8_merge_h4(H8* dst, const H4* src) { try { dst->H8::mergeHll(*src); return 0; } catch (...) { return 1; } }
