// wrappers: HLL register arrays at the unit level (C03): Hll4Array / Hll6Array / Hll8Array driven with coupons
#include "hll.hpp"
using namespace datasketches;
typedef std::allocator<uint8_t> A;
typedef HllArray<A> Arr;
WRAP Arr* w_hll_arr_new(uint8_t type, uint8_t lg_k) {
  try { if (type == 4) return new Hll4Array<A>(lg_k, true, A()); if (type == 6) return new Hll6Array<A>(lg_k, true, A()); return new Hll8Array<A>(lg_k, true, A()); } catch (...) { return nullptr; }
}
WRAP void w_hll_arr_delete(Arr* a) { delete a; }
WRAP int w_hll_arr_coupon(Arr* a, uint32_t coupon) { try { auto r = a->couponUpdate(coupon); return r == a ? 0 : 2; } catch (...) { return 1; } }
// logical register values through the array's own iterator over all slots; returns the number of slots seen
WRAP int32_t w_hll_arr_values(const Arr* a, uint8_t* out, uint32_t cap) {
  try { uint32_t n = 0; auto it = a->begin(true); auto e = a->end(); for (; it != e; ++it) { uint32_t p = *it; uint32_t slot = p & 0x3ffffff; if (slot < cap) out[slot] = (uint8_t)(p >> 26); ++n; } return (int32_t)n; } catch (...) { return -1; }
}
WRAP uint8_t w_hll_arr_is_empty(const Arr* a) { return a->isEmpty(); }
WRAP uint8_t w_hll_arr_cur_min(const Arr* a) { return a->getCurMin(); }
WRAP uint32_t w_hll_arr_num_at_cur_min(const Arr* a) { return a->getNumAtCurMin(); }
// conversion to another register width (copy constructors used by hll_sketch(const hll_sketch&, target_hll_type))
WRAP Arr* w_hll_arr_convert(const Arr* a, uint8_t type) {
  try { if (type == 4) return new Hll4Array<A>(*a); if (type == 6) return new Hll6Array<A>(*a); return new Hll8Array<A>(*a); } catch (...) { return nullptr; }
}
