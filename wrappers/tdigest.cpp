// wrappers: tdigest<double> bookkeeping before the first compression (C17)
#include "tdigest.hpp"
#include "../wrappers/serde_common.hpp"
using namespace datasketches;
typedef tdigest<double> TD;
WRAP TD* w_td_new(uint16_t k) { try { return new TD(k); } catch (...) { return nullptr; } }
WRAP void w_td_delete(TD* s) { delete s; }
WRAP int w_td_update(TD* s, uint64_t bits) { try { s->update(bitsd(bits)); return 0; } catch (...) { return 1; } }
WRAP uint64_t w_td_total_weight(const TD* s) { return s->get_total_weight(); }
WRAP uint8_t w_td_is_empty(const TD* s) { return s->is_empty(); }
WRAP int w_td_min(const TD* s, uint64_t* out) { try { *out = dbits(s->get_min_value()); return 0; } catch (...) { return 1; } }
WRAP int w_td_max(const TD* s, uint64_t* out) { try { *out = dbits(s->get_max_value()); return 0; } catch (...) { return 1; } }
WRAP uint16_t w_td_k(const TD* s) { return s->get_k(); }
