// wrappers: tdigest<double> bookkeeping before the first compression (C17)
#include "tdigest.hpp"
#include "../wrappers/serde_common.hpp"
using namespace datasketches;
typedef tdigest<double> TD;
WRAP TD* w_td_new(uint16_t k) { try { return new TD(k); } catch (...) { return nullptr; } }
WRAP void w_td_delete(TD* s) { delete s; }
WRAP int w_td_update(TD* s, uint64_t bits) { try { s->update(bitsd(bits)); return 0; } catch (...) { return 1; } }
WRAP uint64_t w_td_total_weight(const TD* s) { return s->get_total_weight(); }
WRAP uint8_t w_td_is_empty(const TD* s) { return s->is_empty(); }
WRAP int w_td_min(const TD* s, uint64_t* out) { try { *out = dbits(s->get_min_value()); return 0; } catch (...) { return 1; } }
WRAP int w_td_max(const TD* s, uint64_t* out) { try { *out = dbits(s->get_max_value()); return 0; } catch (...) { return 1; } }
WRAP uint16_t w_td_k(const TD* s) { return s->get_k(); }
// state injection for the query functions (C17 quantile/rank clauses on digests whose centroids are all known): the centroid list, its total
// weight and min / max are written directly (what merge() leaves behind), the buffer stays empty so compress() returns at once
WRAP int w_td_inject(TD* s, uint32_t n, const uint64_t* mean_bits, const uint64_t* weights, uint64_t min_bits, uint64_t max_bits) {
  try {
    s->centroids_.clear(); s->buffer_.clear(); uint64_t tw = 0;
    for (uint32_t i = 0; i < n; i++) { s->centroids_.push_back(TD::centroid(bitsd(mean_bits[i]), weights[i])); tw += weights[i]; }
    s->centroids_weight_ = tw; s->min_ = bitsd(min_bits); s->max_ = bitsd(max_bits); return 0;
  } catch (...) { return 1; }
}
WRAP int w_td_quantile(const TD* s, uint64_t rank_bits, uint64_t* out) { try { *out = dbits(s->get_quantile(bitsd(rank_bits))); return 0; } catch (...) { return 1; } }
WRAP int w_td_rank(const TD* s, uint64_t value_bits, uint64_t* out) { try { *out = dbits(s->get_rank(bitsd(value_bits))); return 0; } catch (...) { return 1; } }
