// wrappers: the bytes-path reader of the HLL_4 auxiliary exception table (C11, unit level): AuxHashMap::deserialize(bytes, len, ...)
#include "hll.hpp"
using namespace datasketches;
typedef std::allocator<uint8_t> A;
typedef AuxHashMap<A> AHM;
// returns 0 accepted (*count = entries), 1 rejected with an exception
WRAP int w_aux_deser(const uint8_t* bytes, uint64_t len, uint8_t lg_config_k, uint32_t aux_count, uint8_t lg_aux_arr_ints, uint8_t src_compact, uint32_t* count, uint32_t* lg_arr) {
  try {
    AHM* m = AHM::deserialize(bytes, len, lg_config_k, aux_count, lg_aux_arr_ints, src_compact != 0, A());
    *count = m->getAuxCount(); *lg_arr = m->getLgAuxArrInts();
    m->make_deleter()(m);
    return 0;
  } catch (...) { return 1; }
}
