// wrappers: the un-stubbed hash functions (C10)
#include "MurmurHash3.h"
#include "xxhash64.h"
#include "common_defs.hpp"
using namespace datasketches;
WRAP void w_murmur(const uint8_t* key, uint64_t len, uint64_t seed, uint64_t* h1, uint64_t* h2) { HashState s; MurmurHash3_x64_128(key, len, seed, s); *h1 = s.h1; *h2 = s.h2; }
WRAP uint64_t w_xxhash(const uint8_t* key, uint64_t len, uint64_t seed) { return XXHash64::hash(key, len, seed); }
WRAP uint16_t w_seed_hash(uint64_t seed) { return compute_seed_hash(seed); }
