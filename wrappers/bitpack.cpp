// wrappers: theta bit packing kernels (bit_packing.hpp)
#include "bit_packing.hpp"
using namespace datasketches;
WRAP void w_pack_block8(const uint64_t* values, uint8_t* buf, uint8_t bits) { pack_bits_block8(values, buf, bits); }
WRAP void w_unpack_block8(uint64_t* values, const uint8_t* buf, uint8_t bits) { unpack_bits_block8(values, buf, bits); }
WRAP uint8_t w_pack_bits(uint64_t value, uint8_t bits, uint8_t* buf, uint32_t* pos, uint8_t offset) { uint8_t* p = buf + *pos; uint8_t o = pack_bits(value, bits, p, offset); *pos = (uint32_t)(p - buf); return o; }
WRAP uint8_t w_unpack_bits(uint64_t* value, uint8_t bits, const uint8_t* buf, uint32_t* pos, uint8_t offset) { const uint8_t* p = buf + *pos; uint8_t o = unpack_bits(*value, bits, p, offset); *pos = (uint32_t)(p - buf); return o; }
