// wrappers: ebpps_sketch<uint32_t> bookkeeping clauses (C18)
#include "ebpps_sketch.hpp"
#include "../wrappers/serde_common.hpp"
using namespace datasketches;
typedef ebpps_sketch<uint32_t> EB;
WRAP EB* w_eb_new(uint32_t k) { try { return new EB(k); } catch (...) { return nullptr; } }
WRAP void w_eb_delete(EB* s) { delete s; }
WRAP int w_eb_update(EB* s, uint32_t item, uint64_t wbits) { try { s->update(item, bitsd(wbits)); return 0; } catch (...) { return 1; } }
WRAP int w_eb_merge(EB* s, const EB* o) { try { s->merge(*o); return 0; } catch (...) { return 1; } }
WRAP uint64_t w_eb_n(const EB* s) { return s->get_n(); }
WRAP uint32_t w_eb_k(const EB* s) { return s->get_k(); }
WRAP uint64_t w_eb_cum_wt(const EB* s) { return dbits(s->get_cumulative_weight()); }
WRAP uint64_t w_eb_c(const EB* s) { return dbits(s->get_c()); }
WRAP uint8_t w_eb_is_empty(const EB* s) { return s->is_empty(); }
// the full items of the current sample (no random draw involved: data_ of the internal sample), and whether a partial item exists
WRAP int32_t w_eb_full_items(const EB* s, uint32_t* out, uint32_t cap) { uint32_t n = 0; for (auto& x : s->sample_.data_) { if (n < cap) out[n] = x; ++n; } return (int32_t)n; }
WRAP uint8_t w_eb_has_partial(const EB* s) { return s->sample_.has_partial_item(); }
