// wrappers: compact theta sketch bytes-path serialization / deserialization / wrap (C09, C10, C11)
#include "theta_sketch.hpp"
#include "../wrappers/views.h"
using namespace datasketches;
typedef compact_theta_sketch cts;
typedef wrapped_compact_theta_sketch wcts;
WRAP uint16_t w_seed_hash(uint64_t seed) { return compute_seed_hash(seed); }
WRAP cts* w_cts_make(uint8_t is_empty, uint8_t is_ordered, uint16_t seed_hash, uint64_t theta, const uint64_t* e, uint32_t n) {
  std::vector<uint64_t> v; v.reserve(n); for (uint32_t i = 0; i < n; i++) v.push_back(e[i]);
  return new cts(is_empty, is_ordered, seed_hash, theta, std::move(v));
}
WRAP void w_cts_delete(cts* c) { delete c; }
// serialize into out[cap]; returns the image size, or -1 on exception / overflow of cap
WRAP int64_t w_cts_serialize(const cts* c, uint32_t header, uint8_t compressed, uint8_t* out, uint64_t cap) {
  try {
    auto v = compressed ? c->serialize_compressed(header) : c->serialize(header);
    if (v.size() > cap) return -2;
    for (size_t i = 0; i < v.size(); i++) out[i] = v[i];
    return (int64_t)v.size();
  } catch (...) { return -1; }
}
WRAP uint64_t w_cts_ser_size(const cts* c, uint8_t compressed) { return c->get_serialized_size_bytes(compressed); }
template<typename S> static void fill(const S& s, theta_view* v) {
  v->theta = s.get_theta64(); v->num = s.get_num_retained(); v->is_empty = s.is_empty(); v->is_ordered = s.is_ordered(); v->seed_hash = s.get_seed_hash();
  uint32_t n = 0; for (auto h : s) { if (n < 8) v->e[n] = h; ++n; } v->iterated = n;
}
WRAP void w_cts_view(const cts* c, theta_view* v) { fill(*c, v); }
WRAP int w_theta_deser(const uint8_t* buf, uint64_t n, uint64_t seed, theta_view* v) { try { auto s = cts::deserialize(buf, n, seed); fill(s, v); return 0; } catch (...) { return 1; } }
WRAP int w_theta_wrap(const uint8_t* buf, uint64_t n, uint64_t seed, theta_view* v) { try { auto s = wcts::wrap(buf, n, seed); fill(s, v); return 0; } catch (...) { return 1; } }
// deserialize then re-serialize (round trip of bytes)
WRAP int64_t w_theta_reser(const uint8_t* buf, uint64_t n, uint64_t seed, uint8_t compressed, uint8_t* out, uint64_t cap) {
  try { auto s = cts::deserialize(buf, n, seed); auto v = compressed ? s.serialize_compressed() : s.serialize(); if (v.size() > cap) return -2; for (size_t i = 0; i < v.size(); i++) out[i] = v[i]; return (int64_t)v.size(); } catch (...) { return -1; }
}
WRAP uint8_t w_num_entries_bytes(cts* c, uint64_t fake_count) {
  // size accounting kernel: entries_.size() is faked by moving the vector's end pointer (never dereferenced)
  uint64_t** raw = reinterpret_cast<uint64_t**>(&c->entries_);   // libstdc++ vector layout: {start, finish, end_of_storage}
  uint64_t* save = raw[1]; raw[1] = raw[0] + fake_count; uint8_t r = c->get_num_entries_bytes(); raw[1] = save; return r;
}
