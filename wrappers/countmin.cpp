// wrappers: count_min_sketch<uint64_t> (C14). The per-row MurmurHash3 is a harness model (VERIF_STUB_HASH).
#include "count_min.hpp"
using namespace datasketches;
typedef count_min_sketch<uint64_t> CM;
WRAP CM* w_cm_new(uint8_t num_hashes, uint32_t num_buckets, uint64_t seed) { try { return new CM(num_hashes, num_buckets, seed); } catch (...) { return nullptr; } }
WRAP void w_cm_delete(CM* s) { delete s; }
WRAP void w_cm_set_seed(CM* s, uint64_t seed) { s->_seed = seed; }   // state injection: avoids running std::default_random_engine on a symbolic seed
WRAP int w_cm_update(CM* s, uint64_t item, uint64_t w) { try { s->update(item, w); return 0; } catch (...) { return 1; } }
WRAP int w_cm_merge(CM* s, const CM* o) { try { s->merge(*o); return 0; } catch (...) { return 1; } }
WRAP uint64_t w_cm_estimate(const CM* s, uint64_t item) { return s->get_estimate(item); }
WRAP uint64_t w_cm_lower(const CM* s, uint64_t item) { return s->get_lower_bound(item); }
WRAP uint64_t w_cm_upper(const CM* s, uint64_t item) { return s->get_upper_bound(item); }
WRAP uint64_t w_cm_total(const CM* s) { return s->get_total_weight(); }
WRAP uint64_t w_cm_cell(const CM* s, uint32_t i) { return s->_sketch_array[i]; }
WRAP uint8_t w_cm_is_empty(const CM* s) { return s->is_empty(); }
// the signed-item overloads (same bytes as the unsigned ones)
WRAP int w_cm_update_i64(CM* s, int64_t item, uint64_t w) { try { s->update(item, w); return 0; } catch (...) { return 1; } }
WRAP uint64_t w_cm_estimate_i64(const CM* s, int64_t item) { return s->get_estimate(item); }
WRAP uint64_t w_cm_lower_i64(const CM* s, int64_t item) { return s->get_lower_bound(item); }
WRAP uint64_t w_cm_upper_i64(const CM* s, int64_t item) { return s->get_upper_bound(item); }
