// wrappers: kll_sketch over an INSTRUMENTED item type (C19: items are constructed and destroyed exactly once)
#include "kll_sketch.hpp"
extern "C" void verif_item_ctor(const void* self);
extern "C" void verif_item_dtor(const void* self);
struct item {
  int32_t v;
  item(int32_t x = 0): v(x) { verif_item_ctor(this); }
  item(const item& o): v(o.v) { verif_item_ctor(this); }
  item(item&& o) noexcept: v(o.v) { verif_item_ctor(this); }
  item& operator=(const item& o) { v = o.v; return *this; }
  item& operator=(item&& o) noexcept { v = o.v; return *this; }
  ~item() { verif_item_dtor(this); }
};
struct item_less { bool operator()(const item& a, const item& b) const { return a.v < b.v; } };
using namespace datasketches;
typedef kll_sketch<item, item_less> KI;
WRAP KI* w_ki_new(uint16_t k) { try { return new KI(k); } catch (...) { return nullptr; } }
WRAP void w_ki_delete(KI* s) { delete s; }
WRAP int w_ki_update(KI* s, int32_t v) { try { s->update(item(v)); return 0; } catch (...) { return 1; } }
WRAP int w_ki_merge(KI* s, const KI* o) { try { s->merge(*o); return 0; } catch (...) { return 1; } }
WRAP int w_ki_merge_move(KI* s, KI* o) { try { s->merge(std::move(*o)); return 0; } catch (...) { return 1; } }
WRAP KI* w_ki_copy(const KI* s) { try { return new KI(*s); } catch (...) { return nullptr; } }
WRAP int w_ki_assign(KI* d, const KI* s) { try { *d = *s; return 0; } catch (...) { return 1; } }
WRAP uint64_t w_ki_n(const KI* s) { return s->get_n(); }
WRAP uint32_t w_ki_num_retained(const KI* s) { return s->get_num_retained(); }
