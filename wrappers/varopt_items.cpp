// wrappers: var_opt_sketch over an instrumented item type (C19)
#include "var_opt_sketch.hpp"
extern "C" void verif_item_ctor(const void* self);
extern "C" void verif_item_dtor(const void* self);
struct item {
  int32_t v;
  item(int32_t x = 0): v(x) { verif_item_ctor(this); }
  item(const item& o): v(o.v) { verif_item_ctor(this); }
  item(item&& o) noexcept: v(o.v) { verif_item_ctor(this); }
  item& operator=(const item& o) { v = o.v; return *this; }
  item& operator=(item&& o) noexcept { v = o.v; return *this; }
  ~item() { verif_item_dtor(this); }
};
using namespace datasketches;
typedef var_opt_sketch<item> VI;
WRAP VI* w_vi_new(uint32_t k) { try { return new VI(k); } catch (...) { return nullptr; } }
WRAP void w_vi_delete(VI* s) { delete s; }
WRAP int w_vi_update(VI* s, int32_t v, double w) { try { s->update(item(v), w); return 0; } catch (...) { return 1; } }
WRAP VI* w_vi_copy(const VI* s) { try { return new VI(*s); } catch (...) { return nullptr; } }
WRAP VI* w_vi_move(VI* s) { try { return new VI(std::move(*s)); } catch (...) { return nullptr; } }
WRAP int w_vi_assign(VI* d, const VI* s) { try { *d = *s; return 0; } catch (...) { return 1; } }
WRAP int w_vi_move_assign(VI* d, VI* s) { try { *d = std::move(*s); return 0; } catch (...) { return 1; } }
WRAP int w_vi_reset(VI* s) { try { s->reset(); return 0; } catch (...) { return 1; } }
WRAP uint64_t w_vi_n(const VI* s) { return s->get_n(); }
WRAP uint32_t w_vi_num_samples(const VI* s) { return s->get_num_samples(); }
