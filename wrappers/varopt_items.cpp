// wrappers: var_opt_sketch over an instrumented item type (C19)
#include "var_opt_sketch.hpp"
extern "C" void verif_item_ctor(const void* self);
extern "C" void verif_item_dtor(const void* self);
struct item {
  int32_t v;
  item(int32_t x = 0): v(x) { verif_item_ctor(this); }
  item(const item& o): v(o.v) { verif_item_ctor(this); }
  item(item&& o) noexcept: v(o.v) { verif_item_ctor(this); }
  item& operator=(const item& o) { v = o.v; return *this; }
  item& operator=(item&& o) noexcept { v = o.v; return *this; }
  ~item() { verif_item_dtor(this); }
};
using namespace datasketches;
typedef var_opt_sketch<item> VI;
WRAP VI* w_vi_new(uint32_t k) { try { return new VI(k); } catch (...) { return nullptr; } }
WRAP void w_vi_delete(VI* s) { delete s; }
WRAP int w_vi_update(VI* s, int32_t v, double w) { try { s->update(item(v), w); return 0; } catch (...) { return 1; } }
WRAP VI* w_vi_copy(const VI* s) { try { return new VI(*s); } catch (...) { return nullptr; } }
WRAP VI* w_vi_move(VI* s) { try { return new VI(std::move(*s)); } catch (...) { return nullptr; } }
WRAP int w_vi_assign(VI* d, const VI* s) { try { *d = *s; return 0; } catch (...) { return 1; } }
WRAP int w_vi_move_assign(VI* d, VI* s) { try { *d = std::move(*s); return 0; } catch (...) { return 1; } }
WRAP int w_vi_reset(VI* s) { try { s->reset(); return 0; } catch (...) { return 1; } }
WRAP uint64_t w_vi_n(const VI* s) { return s->get_n(); }
WRAP uint32_t w_vi_num_samples(const VI* s) { return s->get_num_samples(); }
// state injection: turn a warm-up sketch that holds exactly k items (h_ == k_, r_ == 0) into the resting state update() leaves behind once n > k
// (H region 0..h_, the gap slot h_ holding a constructed stale item, R region h_+1..k_, filled_data_ == true): the last H item becomes the single
// R sample and a (k+1)-th item is constructed behind it, exactly the layout transition_from_warmup() + downsampling produce for r_ == 1.
WRAP int w_vi_inject_estimation(VI* s, int32_t extra) {
  if (s->h_ != s->k_ || s->r_ != 0 || s->k_ < 2 || s->curr_items_alloc_ < s->k_ + 1) return 1;
  new (&s->data_[s->k_]) item(extra);
  s->h_ = s->k_ - 1; s->r_ = 1; s->m_ = 0; s->n_ = s->k_ + 1;
  s->total_wt_r_ = s->weights_[s->h_] + 1.0; s->weights_[s->h_] = -1.0; s->weights_[s->k_] = -1.0;
  s->filled_data_ = true;
  return 0;
}
WRAP uint32_t w_vi_alloc(const VI* s) { return s->curr_items_alloc_; }
