// wrappers: kll_sketch<int32_t>, quantiles_sketch<int32_t>, req_sketch<int32_t> public API (C07, C08)
#include "kll_sketch.hpp"
#include "quantiles_sketch.hpp"
#include "req_sketch.hpp"
using namespace datasketches;
typedef kll_sketch<int32_t> K;
typedef quantiles_sketch<int32_t> Qs;
typedef req_sketch<int32_t> R;
#define COMMON(P, T, NEW) \
WRAP T* w_##P##_new(uint16_t k) { try { return NEW; } catch (...) { return nullptr; } } \
WRAP void w_##P##_delete(T* s) { delete s; } \
WRAP int w_##P##_update(T* s, int32_t v) { try { s->update(v); return 0; } catch (...) { return 1; } } \
WRAP int w_##P##_merge(T* s, const T* o) { try { s->merge(*o); return 0; } catch (...) { return 1; } } \
WRAP uint64_t w_##P##_n(const T* s) { return s->get_n(); } \
WRAP uint32_t w_##P##_num_retained(const T* s) { return s->get_num_retained(); } \
WRAP uint8_t w_##P##_is_empty(const T* s) { return s->is_empty(); } \
WRAP uint8_t w_##P##_is_est(const T* s) { return s->is_estimation_mode(); } \
WRAP int w_##P##_min(const T* s, int32_t* out) { try { *out = s->get_min_item(); return 0; } catch (...) { return 1; } } \
WRAP int w_##P##_max(const T* s, int32_t* out) { try { *out = s->get_max_item(); return 0; } catch (...) { return 1; } } \
/* iterate: (item, weight) pairs through the public iterator; returns the number of entries seen, -1 on exception */ \
WRAP int32_t w_##P##_items(const T* s, int32_t* items, uint64_t* weights, uint32_t cap) { try { uint32_t n = 0; for (auto p : *s) { if (n < cap) { items[n] = p.first; weights[n] = p.second; } ++n; } return (int32_t)n; } catch (...) { return -1; } } \
WRAP int w_##P##_rank(const T* s, int32_t q, uint8_t inclusive, double* out) { try { *out = s->get_rank(q, inclusive); return 0; } catch (...) { return 1; } } \
WRAP int w_##P##_quantile(const T* s, double r, uint8_t inclusive, int32_t* out) { try { *out = s->get_quantile(r, inclusive); return 0; } catch (...) { return 1; } } \
/* sorted view: items ascending with cumulative weights */ \
WRAP int32_t w_##P##_sorted(const T* s, int32_t* items, uint64_t* cumw, uint32_t cap) { try { auto v = s->get_sorted_view(); uint32_t n = 0; for (auto p : v) { if (n < cap) { items[n] = p.first; cumw[n] = p.second; } ++n; } return (int32_t)n; } catch (...) { return -1; } }
COMMON(kll, K, new K(k))
COMMON(qs, Qs, new Qs(k))
COMMON(req, R, new R(k))
WRAP double w_kll_rank_error(uint16_t k, uint8_t pmf) { return K::get_normalized_rank_error(k, pmf); }
// kernels
WRAP int w_kll_general_compress(uint16_t k, uint8_t m, uint8_t num_levels_in, int32_t* items, uint32_t* in_levels, uint32_t* out_levels, uint8_t is_level_zero_sorted, uint32_t* res) {
  try { auto r = kll_helper::general_compress<int32_t, std::less<int32_t>>(k, m, num_levels_in, items, in_levels, out_levels, is_level_zero_sorted); res[0] = r.final_num_levels; res[1] = r.final_capacity; res[2] = r.final_num_items; return 0; } catch (...) { return 1; }
}
WRAP void w_kll_halve_down(int32_t* buf, uint32_t start, uint32_t length) { kll_helper::randomly_halve_down(buf, start, length); }
WRAP void w_kll_halve_up(int32_t* buf, uint32_t start, uint32_t length) { kll_helper::randomly_halve_up(buf, start, length); }
// value semantics (C19)
WRAP K* w_kll_copy(const K* s) { try { return new K(*s); } catch (...) { return nullptr; } }
WRAP K* w_kll_move(K* s) { try { return new K(std::move(*s)); } catch (...) { return nullptr; } }
WRAP int w_kll_assign(K* d, const K* s) { try { *d = *s; return 0; } catch (...) { return 1; } }
WRAP int w_kll_move_assign(K* d, K* s) { try { *d = std::move(*s); return 0; } catch (...) { return 1; } }
WRAP Qs* w_qs_copy(const Qs* s) { try { return new Qs(*s); } catch (...) { return nullptr; } }
WRAP Qs* w_qs_move(Qs* s) { try { return new Qs(std::move(*s)); } catch (...) { return nullptr; } }
WRAP int w_qs_assign(Qs* d, const Qs* s) { try { *d = *s; return 0; } catch (...) { return 1; } }
WRAP int w_qs_move_assign(Qs* d, Qs* s) { try { *d = std::move(*s); return 0; } catch (...) { return 1; } }
// classic quantiles: state injection (C07 iterator clause): n items laid out as the documented structure for (k, n):
// base buffer holds n mod 2k items, level h holds k items iff bit h of n/(2k) is set
WRAP Qs* w_qs_inject(uint16_t k, uint64_t n, const int32_t* vals) {
  try {
    Qs* s = new Qs(k);
    uint32_t bb = (uint32_t)(n % (2ULL * k)); uint64_t bits = n / (2ULL * k); uint32_t vi = 0;
    s->base_buffer_.clear(); for (uint32_t i = 0; i < bb; i++) s->base_buffer_.push_back(vals[vi++]);
    s->levels_.clear();
    for (uint32_t h = 0; (bits >> h) != 0; h++) { Qs::Level lvl; if ((bits >> h) & 1) for (uint32_t i = 0; i < k; i++) lvl.push_back(vals[vi++]); s->levels_.push_back(lvl); }
    s->n_ = n; s->bit_pattern_ = bits;
    if (n > 0) { s->min_item_.emplace(vals[0]); s->max_item_.emplace(vals[0]); }
    return s;
  } catch (...) { return nullptr; }
}
// kll: state injection (C07 iterator clause): level populations pops[0..nl-1] (sum <= k), items packed at the top of the k-item buffer
WRAP K* w_kll_inject(uint16_t k, const uint32_t* pops, uint8_t nl, const int32_t* vals) {
  try {
    K* s = new K(k);
    uint32_t total = 0; for (uint8_t h = 0; h < nl; h++) total += pops[h];
    if (total > s->items_size_) { delete s; return nullptr; }
    s->levels_.resize(nl + 1); s->num_levels_ = nl;
    uint32_t pos = s->items_size_ - total; uint64_t n = 0;
    for (uint8_t h = 0; h < nl; h++) { s->levels_[h] = pos; pos += pops[h]; n += (uint64_t)pops[h] << h; }
    s->levels_[nl] = pos;
    for (uint32_t i = 0; i < total; i++) s->items_[s->items_size_ - total + i] = vals[i];
    s->n_ = n;
    if (total > 0) { s->min_item_.emplace(vals[0]); s->max_item_.emplace(vals[0]); }
    return s;
  } catch (...) { return nullptr; }
}
WRAP uint16_t w_kll_min_k(const K* s) { return s->min_k_; }
