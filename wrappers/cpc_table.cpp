// wrappers: the CPC "surprising value" pair table (u32_table) at the unit level (C05)
#include "u32_table.hpp"
using namespace datasketches;
typedef std::allocator<uint8_t> A;
typedef u32_table<A> T32;
WRAP T32* w_t32_new(uint8_t lg_size, uint8_t num_valid_bits) { try { return new T32(lg_size, num_valid_bits, A()); } catch (...) { return nullptr; } }
WRAP void w_t32_delete(T32* t) { delete t; }
// 0 = not changed (already present / absent), 1 = inserted / deleted, 2 = exception
WRAP int w_t32_maybe_insert(T32* t, uint32_t item) { try { return t->maybe_insert(item) ? 1 : 0; } catch (...) { return 2; } }
WRAP int w_t32_maybe_delete(T32* t, uint32_t item) { try { return t->maybe_delete(item) ? 1 : 0; } catch (...) { return 2; } }
WRAP uint32_t w_t32_num_items(const T32* t) { return t->get_num_items(); }
WRAP uint32_t w_t32_lg_size(const T32* t) { return t->get_lg_size(); }
// membership through the table's own probe sequence
WRAP int w_t32_contains(const T32* t, uint32_t item) { try { return t->get_slots()[t->lookup(item)] == item ? 1 : 0; } catch (...) { return 2; } }
WRAP uint32_t w_t32_occupied(const T32* t) { uint32_t n = 0; for (uint32_t i = 0; i < (1u << t->get_lg_size()); i++) if (t->get_slots()[i] != UINT32_MAX) n++; return n; }
