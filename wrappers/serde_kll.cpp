// wrappers: kll_sketch<int32_t> bytes-path serde (C09, C11)
#include "kll_sketch.hpp"
#include "../wrappers/serde_common.hpp"
using namespace datasketches;
typedef kll_sketch<int32_t> S;
static void view(const S& s, gen_view* v) {
  for (int i = 0; i < 16; i++) v->f[i] = 0;
  v->f[0] = s.get_n(); v->f[1] = s.get_num_retained(); v->f[4] = s.get_k(); v->f[7] = s.is_empty(); v->f[8] = s.is_estimation_mode();
  if (!s.is_empty()) { v->f[2] = (uint32_t)s.get_min_item(); v->f[3] = (uint32_t)s.get_max_item(); }
  uint64_t cnt = 0; for (auto p : s) { v->f[5] += (uint64_t)(uint32_t)p.first * p.second; v->f[6] += p.second; ++cnt; } v->f[11] = cnt;
  auto b = s.serialize(); v->f[9] = b.size(); v->f[10] = fnv(b.data(), b.size()); v->f[12] = s.get_serialized_size_bytes();
}
WRAP int64_t w_kll_image(uint8_t* out, uint64_t cap, const uint64_t* vals, uint32_t nv, uint32_t header, gen_view* v) {
  try { S s(8); for (uint32_t i = 0; i < nv; i++) s.update((int32_t)vals[i]); view(s, v); return emit(s.serialize(header), out, cap); } catch (...) { return -1; }
}
WRAP int w_kll_deser(const uint8_t* buf, uint64_t n, gen_view* v) { try { auto s = S::deserialize(buf, n); view(s, v); return 0; } catch (...) { return 1; } }
// 'kllm': a k=16 sketch that merged an estimation-mode k=8 sketch (min_k = 8 < k): the first nv of the 9 items of the k=8 sketch are the harness values
WRAP int64_t w_kllm_image(uint8_t* out, uint64_t cap, const uint64_t* vals, uint32_t nv, uint32_t header, gen_view* v) {
  try { S b(8); for (uint32_t i = 0; i < 9; i++) b.update(i < nv ? (int32_t)vals[i] : (int32_t)(100 + 7 * i)); S a(16); a.update(5); a.merge(b); view(a, v); v->f[13] = a.min_k_; return emit(a.serialize(header), out, cap); } catch (...) { return -1; }
}
WRAP int w_kllm_deser(const uint8_t* buf, uint64_t n, gen_view* v) { try { auto s = S::deserialize(buf, n); view(s, v); v->f[13] = s.min_k_; return 0; } catch (...) { return 1; } }
