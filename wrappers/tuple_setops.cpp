// wrappers: tuple set operations (C13) over compact_tuple_sketch<uint32_t> operands built from parts. No hashing is involved (hashes are data here).
#include "tuple_sketch.hpp"
#include "tuple_union.hpp"
#include "tuple_intersection.hpp"
#include "tuple_a_not_b.hpp"
using namespace datasketches;
#ifdef SUMMARY_MOVE
// summary type with REAL move semantics: a moved-from summary is visibly clobbered (as a moved-from std::vector / std::string / array<double> is)
struct msum {
  uint32_t v;
  msum(uint32_t x = 0): v(x) {}
  msum(const msum& o): v(o.v) {}
  msum(msum&& o) noexcept: v(o.v) { o.v = 0xDEADBEEFu; }
  msum& operator=(const msum& o) { v = o.v; return *this; }
  msum& operator=(msum&& o) noexcept { v = o.v; if (&o != this) o.v = 0xDEADBEEFu; return *this; }
  operator uint32_t() const { return v; }
};
typedef msum SUM;
#else
typedef uint32_t SUM;
#endif
struct comb_policy {   // summary' = 3 * summary + other: the order in which inputs meet is observable
  void operator()(SUM& summary, const SUM& other) const { summary = SUM((uint32_t)summary * 3u + (uint32_t)other); }
};
typedef compact_tuple_sketch<SUM> cts;
typedef tuple_union<SUM, comb_policy> tun;
typedef tuple_intersection<SUM, comb_policy> tin;
typedef tuple_a_not_b<SUM> anb;
WRAP uint16_t w_seed_hash(uint64_t seed) { return compute_seed_hash(seed); }
WRAP cts* w_ctup_make(uint8_t is_empty, uint8_t is_ordered, uint16_t seed_hash, uint64_t theta, const uint64_t* keys, const uint32_t* sums, uint32_t n) {
  std::vector<std::pair<uint64_t, SUM>> v; v.reserve(n); for (uint32_t i = 0; i < n; i++) v.push_back(std::pair<uint64_t, SUM>(keys[i], SUM(sums[i])));
  return new cts(is_empty, is_ordered, seed_hash, theta, std::move(v));
}
WRAP void w_ctup_delete(cts* c) { delete c; }
WRAP uint64_t w_ctup_theta(const cts* c) { return c->get_theta64(); }
WRAP uint32_t w_ctup_num(const cts* c) { return c->get_num_retained(); }
WRAP uint8_t w_ctup_is_empty(const cts* c) { return c->is_empty(); }
WRAP uint8_t w_ctup_is_ordered(const cts* c) { return c->is_ordered(); }
WRAP uint16_t w_ctup_seed_hash(const cts* c) { return c->get_seed_hash(); }
WRAP uint64_t w_ctup_key(const cts* c, uint32_t i) { return c->entries_[i].first; }
WRAP uint32_t w_ctup_summary(const cts* c, uint32_t i) { return (uint32_t)c->entries_[i].second; }
// union at the unit level (private constructor: table of 2^lg_cur slots, nominal size 2^lg_nom)
WRAP tun* w_ttu_new_unit(uint8_t lg_cur, uint8_t lg_nom, uint64_t theta, uint64_t seed) { return new tun(lg_cur, lg_nom, resize_factor::X1, 1.0f, theta, seed, comb_policy(), std::allocator<SUM>()); }
WRAP void w_ttu_delete(tun* u) { delete u; }
WRAP int w_ttu_update(tun* u, const cts* s) { try { u->update(*s); return 0; } catch (...) { return 1; } }
WRAP cts* w_ttu_result(const tun* u, uint8_t ordered) { try { return new cts(u->get_result(ordered)); } catch (...) { return nullptr; } }
WRAP tin* w_tti_new(uint64_t seed) { return new tin(seed); }
WRAP void w_tti_delete(tin* t) { delete t; }
WRAP int w_tti_update(tin* t, const cts* s) { try { t->update(*s); return 0; } catch (...) { return 1; } }
WRAP cts* w_tti_result(const tin* t, uint8_t ordered) { try { return new cts(t->get_result(ordered)); } catch (...) { return nullptr; } }
WRAP cts* w_tanb(uint64_t seed, const cts* a, const cts* b, uint8_t ordered) { try { anb x(seed); return new cts(x.compute(*a, *b, ordered)); } catch (...) { return nullptr; } }
