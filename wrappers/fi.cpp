// wrappers: frequent_items_sketch<uint64_t> (C12)
#include "frequent_items_sketch.hpp"
using namespace datasketches;
typedef frequent_items_sketch<uint64_t> FI;
WRAP FI* w_fi_new(uint8_t lg_max, uint8_t lg_start) { try { return new FI(lg_max, lg_start); } catch (...) { return nullptr; } }
WRAP void w_fi_delete(FI* s) { delete s; }
WRAP int w_fi_update(FI* s, uint64_t item, uint64_t w) { try { s->update(item, w); return 0; } catch (...) { return 1; } }
WRAP int w_fi_merge(FI* s, const FI* o) { try { s->merge(*o); return 0; } catch (...) { return 1; } }
WRAP uint64_t w_fi_estimate(const FI* s, uint64_t item) { return s->get_estimate(item); }
WRAP uint64_t w_fi_lower(const FI* s, uint64_t item) { return s->get_lower_bound(item); }
WRAP uint64_t w_fi_upper(const FI* s, uint64_t item) { return s->get_upper_bound(item); }
WRAP uint64_t w_fi_max_error(const FI* s) { return s->get_maximum_error(); }
WRAP uint64_t w_fi_total(const FI* s) { return s->get_total_weight(); }
WRAP uint32_t w_fi_active(const FI* s) { return s->get_num_active_items(); }
// get_frequent_items: writes items / estimates in result order, returns the count
WRAP int32_t w_fi_frequent(const FI* s, uint8_t no_false_negatives, uint64_t threshold, uint64_t* items, uint64_t* est, uint64_t* lb, uint64_t* ub, uint32_t cap) {
  try { auto v = s->get_frequent_items(no_false_negatives ? NO_FALSE_NEGATIVES : NO_FALSE_POSITIVES, threshold); uint32_t n = 0;
    for (auto& r : v) { if (n < cap) { items[n] = r.get_item(); est[n] = r.get_estimate(); lb[n] = r.get_lower_bound(); ub[n] = r.get_upper_bound(); } ++n; } return (int32_t)n; } catch (...) { return -1; }
}
// unit level: the reverse-purge hash map itself (instantiated exactly as frequent_items_sketch<uint64_t> does)
typedef reverse_purge_hash_map<uint64_t, uint64_t, std::hash<uint64_t>, std::equal_to<uint64_t>, std::allocator<uint64_t>> RP;
WRAP RP* w_rp_new(uint8_t lg_cur, uint8_t lg_max) { try { return new RP(lg_cur, lg_max, std::equal_to<uint64_t>(), std::allocator<uint64_t>()); } catch (...) { return nullptr; } }
WRAP void w_rp_delete(RP* m) { delete m; }
WRAP uint32_t w_rp_home(const RP* m, uint64_t key) { return fmix64(std::hash<uint64_t>()(key)) & ((1u << m->lg_cur_size_) - 1); }
WRAP int w_rp_insert(RP* m, uint64_t key, uint64_t value) { try { m->adjust_or_insert(key, value); return 0; } catch (...) { return 1; } }
WRAP int w_rp_subtract(RP* m, uint64_t amount) { try { m->subtract_and_keep_positive_only(amount); return 0; } catch (...) { return 1; } }
WRAP uint64_t w_rp_get(const RP* m, uint64_t key) { return m->get(key); }
WRAP uint32_t w_rp_num_active(const RP* m) { return m->num_active_; }
WRAP uint32_t w_rp_state(const RP* m, uint32_t i) { return m->states_[i]; }
// state injection: the accumulated purge offset of a sketch (what earlier purges left behind)
WRAP void w_fi_set_offset(FI* s, uint64_t off) { s->offset = off; }
WRAP uint64_t w_fi_offset(const FI* s) { return s->offset; }
// bytes round trip of a sketch: total weight and maximum error of the restored sketch
WRAP int w_fi_roundtrip(const FI* s, uint64_t* total, uint64_t* maxerr) {
  try { auto bytes = s->serialize(); FI r = FI::deserialize(bytes.data(), bytes.size()); *total = r.get_total_weight(); *maxerr = r.get_maximum_error(); return 0; } catch (...) { return 1; }
}
WRAP void w_fi_set_total(FI* s, uint64_t total) { s->total_weight = total; }
