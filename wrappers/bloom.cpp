// wrappers: bloom_filter (C15). XXHash64 is a harness model (VERIF_STUB_HASH).
#include "bloom_filter.hpp"
using namespace datasketches;
typedef bloom_filter BF;
WRAP BF* w_bf_new(uint64_t num_bits, uint16_t num_hashes, uint64_t seed) { try { return new BF(BF::builder::create_by_size(num_bits, num_hashes, seed)); } catch (...) { return nullptr; } }
WRAP void w_bf_delete(BF* f) { delete f; }
WRAP BF* w_bf_copy(const BF* f) { return new BF(*f); }
WRAP int w_bf_update(BF* f, uint64_t item) { try { f->update(item); return 0; } catch (...) { return 1; } }
WRAP int w_bf_query(const BF* f, uint64_t item) { try { return f->query(item) ? 1 : 0; } catch (...) { return -1; } }
WRAP int w_bf_query_and_update(BF* f, uint64_t item) { try { return f->query_and_update(item) ? 1 : 0; } catch (...) { return -1; } }
WRAP int w_bf_union(BF* f, const BF* o) { try { f->union_with(*o); return 0; } catch (...) { return 1; } }
WRAP int w_bf_intersect(BF* f, const BF* o) { try { f->intersect(*o); return 0; } catch (...) { return 1; } }
WRAP int w_bf_invert(BF* f) { try { f->invert(); return 0; } catch (...) { return 1; } }
WRAP int w_bf_reset(BF* f) { try { f->reset(); return 0; } catch (...) { return 1; } }
WRAP uint64_t w_bf_bits_used(BF* f) { return f->get_bits_used(); }
WRAP uint8_t w_bf_is_empty(const BF* f) { return f->is_empty(); }
WRAP uint64_t w_bf_capacity(const BF* f) { return f->get_capacity(); }
WRAP uint64_t w_bf_word(const BF* f, uint32_t i) { uint64_t w; std::memcpy(&w, f->bit_array_ + 8 * i, 8); return w; }
// serialize + deserialize round trip -> new filter
WRAP BF* w_bf_roundtrip(const BF* f) { try { auto b = f->serialize(); return new BF(BF::deserialize(b.data(), b.size())); } catch (...) { return nullptr; } }
// caller-memory filters: initialize in mem (writable), and re-wrap the same memory later
WRAP BF* w_bf_init_mem(uint8_t* mem, uint64_t len, uint64_t num_bits, uint16_t num_hashes, uint64_t seed) { try { return new BF(BF::builder::initialize_by_size(mem, len, num_bits, num_hashes, seed)); } catch (...) { return nullptr; } }
WRAP BF* w_bf_wrap(const uint8_t* mem, uint64_t len) { try { return new BF(BF::wrap(mem, len)); } catch (...) { return nullptr; } }
WRAP BF* w_bf_writable_wrap(uint8_t* mem, uint64_t len) { try { return new BF(BF::writable_wrap(mem, len)); } catch (...) { return nullptr; } }
WRAP int64_t w_bf_serialize(const BF* f, uint8_t* out, uint64_t cap) { try { auto b = f->serialize(); if (b.size() > cap) return -2; for (size_t i = 0; i < b.size(); i++) out[i] = b[i]; return (int64_t)b.size(); } catch (...) { return -1; } }
// bit_array_ops kernels alone (unit level): multi-word arrays in harness memory
WRAP uint8_t w_bao_get(uint8_t* a, uint64_t i) { return bit_array_ops::get_bit(a, i); }
WRAP void w_bao_set(uint8_t* a, uint64_t i) { bit_array_ops::set_bit(a, i); }
WRAP void w_bao_clear(uint8_t* a, uint64_t i) { bit_array_ops::clear_bit(a, i); }
WRAP void w_bao_assign(uint8_t* a, uint64_t i, uint8_t v) { bit_array_ops::assign_bit(a, i, v != 0); }
WRAP uint8_t w_bao_get_and_set(uint8_t* a, uint64_t i) { return bit_array_ops::get_and_set_bit(a, i); }
WRAP uint64_t w_bao_count(uint8_t* a, uint64_t len) { return bit_array_ops::count_num_bits_set(a, len); }
WRAP uint64_t w_bao_union(uint8_t* t, const uint8_t* s, uint64_t len) { return bit_array_ops::union_with(t, s, len); }
WRAP uint64_t w_bao_intersect(uint8_t* t, const uint8_t* s, uint64_t len) { return bit_array_ops::intersect(t, s, len); }
WRAP uint64_t w_bao_invert(uint8_t* a, uint64_t len) { return bit_array_ops::invert(a, len); }
