// wrappers: hll_sketch / hll_union public API (C04); MurmurHash3 is a harness model (VERIF_STUB_HASH)
#include "hll.hpp"
using namespace datasketches;
typedef std::allocator<uint8_t> A;
WRAP hll_sketch* w_hs_new(uint8_t lg_k, uint8_t type, uint8_t full) { try { return new hll_sketch(lg_k, (target_hll_type)type, full); } catch (...) { return nullptr; } }
WRAP void w_hs_delete(hll_sketch* s) { delete s; }
WRAP int w_hs_update(hll_sketch* s, uint64_t v) { try { s->update(v); return 0; } catch (...) { return 1; } }
WRAP uint8_t w_hs_lg_k(const hll_sketch* s) { return s->get_lg_config_k(); }
WRAP uint8_t w_hs_is_empty(const hll_sketch* s) { return s->is_empty(); }
WRAP int w_hs_mode(const hll_sketch* s) { return (int)s->sketch_impl->getCurMode(); }
// logical register of an HLL-mode sketch
WRAP int w_hs_value(const hll_sketch* s, uint32_t slot) {
  try { const HllArray<A>* a = static_cast<const HllArray<A>*>(s->sketch_impl);
        return HllArray<A>::const_iterator::get_value(a->hllByteArr_.data(), slot, a->getTgtHllType(), a->getAuxHashMap(), a->curMin_); } catch (...) { return -1; }
}
WRAP hll_union* w_hu_new(uint8_t lg_max_k) { try { return new hll_union(lg_max_k); } catch (...) { return nullptr; } }
WRAP void w_hu_delete(hll_union* u) { delete u; }
WRAP int w_hu_update(hll_union* u, const hll_sketch* s) { try { u->update(*s); return 0; } catch (...) { return 1; } }
WRAP int w_hu_update_item(hll_union* u, uint64_t v) { try { u->update(v); return 0; } catch (...) { return 1; } }
WRAP hll_sketch* w_hu_result(const hll_union* u, uint8_t type) { try { return new hll_sketch(u->get_result((target_hll_type)type)); } catch (...) { return nullptr; } }
WRAP uint8_t w_hu_lg_k(const hll_union* u) { return u->get_lg_config_k(); }
// feed a coupon to an HLL_8-mode sketch through the array's own update (non-virtual call: see hll_arrays.cpp)
WRAP int w_hs_coupon8(hll_sketch* s, uint32_t coupon) { try { auto a = static_cast<Hll8Array<A>*>(s->sketch_impl); return a->Hll8Array<A>::couponUpdate(coupon) == a ? 0 : 2; } catch (...) { return 1; } }
