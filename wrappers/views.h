/* plain structs shared between wrapper TUs (C++) and harnesses (C); passed as void* from the harness side */
#ifndef VERIF_VIEWS_H
#define VERIF_VIEWS_H
#include <stdint.h>
struct theta_view { uint64_t theta; uint32_t num; uint8_t is_empty, is_ordered; uint16_t seed_hash; uint64_t e[8]; uint32_t iterated; };
/* generic observation record for serde harnesses: getters + checksums, filled by w_<fam>_image (original) and w_<fam>_deser (restored) */
struct gen_view { uint64_t f[16]; };
#endif
