/* plain structs shared between wrapper TUs (C++) and harnesses (C); passed as void* from the harness side */
#ifndef VERIF_VIEWS_H
#define VERIF_VIEWS_H
#include <stdint.h>
struct theta_view { uint64_t theta; uint32_t num; uint8_t is_empty, is_ordered; uint16_t seed_hash; uint64_t e[8]; uint32_t iterated; };
#endif
