// wrappers: update_tuple_sketch<uint32_t> with a non-commutative update policy (C13). MurmurHash3 is a harness model (VERIF_STUB_HASH).
#include "tuple_sketch.hpp"
using namespace datasketches;
struct fold_policy {   // summary' = 3 * summary + value  (order of arrival is observable)
  uint32_t create() const { return 0; }
  void update(uint32_t& summary, const uint32_t& v) const { summary = summary * 3u + v; }
};
typedef update_tuple_sketch<uint32_t, uint32_t, fold_policy> uts;
typedef compact_tuple_sketch<uint32_t> cts;
WRAP uts* w_tup_new(uint8_t lg_cur, uint8_t lg_nom, int rf, uint64_t theta, uint64_t seed) { return new uts(lg_cur, lg_nom, (resize_factor)rf, 1.0f, theta, seed, fold_policy(), std::allocator<uint32_t>()); }
WRAP void w_tup_delete(uts* s) { delete s; }
WRAP void w_tup_set_slot(uts* s, uint32_t i, uint64_t key, uint32_t summary) { s->map_.entries_[i].first = key; s->map_.entries_[i].second = summary; }
WRAP void w_tup_set_num(uts* s, uint32_t n) { s->map_.num_entries_ = n; s->map_.is_empty_ = false; }
WRAP uint64_t w_tup_slot_key(const uts* s, uint32_t i) { return s->map_.entries_[i].first; }
WRAP uint32_t w_tup_slot_summary(const uts* s, uint32_t i) { return s->map_.entries_[i].second; }
WRAP uint32_t w_tup_lg_cur(const uts* s) { return s->map_.lg_cur_size_; }
WRAP uint32_t w_tup_find(const uts* s, uint64_t key, int* found) { auto r = s->map_.find(key); *found = r.second; return (uint32_t)(r.first - s->map_.entries_); }
WRAP int w_tup_update(uts* s, uint64_t key, uint32_t v) { try { s->update(key, v); return 0; } catch (...) { return 1; } }
WRAP uint64_t w_tup_theta(const uts* s) { return s->get_theta64(); }
WRAP uint32_t w_tup_num(const uts* s) { return s->get_num_retained(); }
WRAP uint8_t w_tup_is_empty(const uts* s) { return s->is_empty(); }
// public iterator: (key, summary) pairs
WRAP uint32_t w_tup_entries(const uts* s, uint64_t* keys, uint32_t* sums, uint32_t cap) { uint32_t n = 0; for (auto& e : *s) { if (n < cap) { keys[n] = e.first; sums[n] = e.second; } ++n; } return n; }
WRAP cts* w_tup_compact(const uts* s, uint8_t ordered) { try { return new cts(s->compact(ordered)); } catch (...) { return nullptr; } }
WRAP void w_ctup_delete(cts* c) { delete c; }
WRAP uint64_t w_ctup_theta(const cts* c) { return c->get_theta64(); }
WRAP uint8_t w_ctup_is_ordered(const cts* c) { return c->is_ordered(); }
WRAP uint32_t w_ctup_entries(const cts* c, uint64_t* keys, uint32_t* sums, uint32_t cap) { uint32_t n = 0; for (auto& e : *c) { if (n < cap) { keys[n] = e.first; sums[n] = e.second; } ++n; } return n; }
// filter with a threshold predicate on the summary
struct ge_pred { uint32_t t; bool operator()(const uint32_t& s) const { return s >= t; } };
WRAP cts* w_tup_filter(const uts* s, uint32_t t) { try { return new cts(s->filter(ge_pred{t})); } catch (...) { return nullptr; } }
