// wrappers: update_theta_sketch / compact_theta_sketch (C01). Built with -DVERIF_STUB_HASH: MurmurHash3 is a harness function.
#include "theta_sketch.hpp"
using namespace datasketches;
typedef update_theta_sketch uts;
typedef compact_theta_sketch cts;

// public-API construction
WRAP uts* w_uts_build(uint8_t lg_k, int rf, float p, uint64_t seed) {
  try { return new uts(uts::builder().set_lg_k(lg_k).set_resize_factor((resize_factor)rf).set_p(p).set_seed(seed).build()); } catch (...) { return nullptr; }
}
// unit-level construction (private constructor): allows tables below the public minimum lg_k
WRAP uts* w_uts_new(uint8_t lg_cur, uint8_t lg_nom, int rf, float p, uint64_t theta, uint64_t seed) {
  return new uts(lg_cur, lg_nom, (resize_factor)rf, p, theta, seed, std::allocator<uint64_t>());
}
WRAP void w_uts_delete(uts* s) { delete s; }
WRAP uts* w_uts_copy(const uts* s) { return new uts(*s); }
// state injection / inspection of the hash table
WRAP void w_uts_set_slot(uts* s, uint32_t i, uint64_t v) { s->table_.entries_[i] = v; }
WRAP void w_uts_set_num(uts* s, uint32_t n) { s->table_.num_entries_ = n; }
WRAP void w_uts_set_empty(uts* s, uint8_t e) { s->table_.is_empty_ = e; }
WRAP uint64_t w_uts_slot(const uts* s, uint32_t i) { return s->table_.entries_[i]; }
WRAP uint32_t w_uts_lg_cur(const uts* s) { return s->table_.lg_cur_size_; }
WRAP uint32_t w_uts_find(const uts* s, uint64_t key, int* found) { auto r = s->table_.find(key); *found = r.second; return (uint32_t)(r.first - s->table_.entries_); }
WRAP uint32_t w_uts_capacity(uint8_t lg_cur, uint8_t lg_nom) { return uts::theta_table::get_capacity(lg_cur, lg_nom); }
// updates: every overload. return 0 ok, 1 exception
WRAP int w_uts_update_u64(uts* s, uint64_t v) { try { s->update(v); return 0; } catch (...) { return 1; } }
WRAP int w_uts_update_i64(uts* s, int64_t v) { try { s->update(v); return 0; } catch (...) { return 1; } }
WRAP int w_uts_update_u32(uts* s, uint32_t v) { try { s->update(v); return 0; } catch (...) { return 1; } }
WRAP int w_uts_update_i32(uts* s, int32_t v) { try { s->update(v); return 0; } catch (...) { return 1; } }
WRAP int w_uts_update_u16(uts* s, uint16_t v) { try { s->update(v); return 0; } catch (...) { return 1; } }
WRAP int w_uts_update_i16(uts* s, int16_t v) { try { s->update(v); return 0; } catch (...) { return 1; } }
WRAP int w_uts_update_u8(uts* s, uint8_t v) { try { s->update(v); return 0; } catch (...) { return 1; } }
WRAP int w_uts_update_i8(uts* s, int8_t v) { try { s->update(v); return 0; } catch (...) { return 1; } }
WRAP int w_uts_update_f64(uts* s, double v) { try { s->update(v); return 0; } catch (...) { return 1; } }
WRAP int w_uts_update_f32(uts* s, float v) { try { s->update(v); return 0; } catch (...) { return 1; } }
WRAP int w_uts_update_bytes(uts* s, const uint8_t* p, uint64_t n) { try { s->update((const void*)p, (size_t)n); return 0; } catch (...) { return 1; } }
WRAP int w_uts_trim(uts* s) { try { s->trim(); return 0; } catch (...) { return 1; } }
WRAP int w_uts_reset(uts* s) { try { s->reset(); return 0; } catch (...) { return 1; } }
// observers (public API)
WRAP uint64_t w_uts_theta(const uts* s) { return s->get_theta64(); }
WRAP uint64_t w_uts_raw_theta(const uts* s) { return s->table_.theta_; }
WRAP uint32_t w_uts_num(const uts* s) { return s->get_num_retained(); }
WRAP uint8_t w_uts_is_empty(const uts* s) { return s->is_empty(); }
WRAP uint8_t w_uts_is_est(const uts* s) { return s->is_estimation_mode(); }
WRAP uint8_t w_uts_is_ordered(const uts* s) { return s->is_ordered(); }
WRAP uint32_t w_uts_lg_k(const uts* s) { return s->get_lg_k(); }
WRAP double w_uts_estimate(const uts* s) { return s->get_estimate(); }
// iterate through the public iterator: writes up to cap hashes, returns the count seen
WRAP uint32_t w_uts_entries(const uts* s, uint64_t* out, uint32_t cap) { uint32_t n = 0; for (auto h : *s) { if (n < cap) out[n] = h; ++n; } return n; }
// compact forms
WRAP cts* w_uts_compact(const uts* s, uint8_t ordered) { try { return new cts(s->compact(ordered)); } catch (...) { return nullptr; } }
WRAP cts* w_cts_from_uts(const uts* s, uint8_t ordered) { try { return new cts(*s, ordered); } catch (...) { return nullptr; } }
WRAP void w_cts_delete(cts* c) { delete c; }
WRAP uint64_t w_cts_theta(const cts* c) { return c->get_theta64(); }
WRAP uint32_t w_cts_num(const cts* c) { return c->get_num_retained(); }
WRAP uint8_t w_cts_is_empty(const cts* c) { return c->is_empty(); }
WRAP uint8_t w_cts_is_ordered(const cts* c) { return c->is_ordered(); }
WRAP uint8_t w_cts_is_est(const cts* c) { return c->is_estimation_mode(); }
WRAP uint16_t w_cts_seed_hash(const cts* c) { return c->get_seed_hash(); }
WRAP uint32_t w_cts_entries(const cts* c, uint64_t* out, uint32_t cap) { uint32_t n = 0; for (auto h : *c) { if (n < cap) out[n] = h; ++n; } return n; }
WRAP uint64_t w_start_theta_from_p(float p) { return theta_build_helper<true>::starting_theta_from_p(p); }
WRAP uint8_t w_start_lg_size(uint8_t lg_k, int rf) { return theta_build_helper<true>::starting_sub_multiple(lg_k + 1, theta_constants::MIN_LG_K, (uint8_t)rf); }
