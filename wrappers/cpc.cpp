// wrappers: cpc_sketch at the row/column level (C05): coupons are fed as (row << 6 | col) pairs
#include "cpc_sketch.hpp"
using namespace datasketches;
WRAP cpc_sketch* w_cpc_new(uint8_t lg_k) { try { return new cpc_sketch(lg_k); } catch (...) { return nullptr; } }
WRAP void w_cpc_delete(cpc_sketch* s) { delete s; }
WRAP int w_cpc_row_col(cpc_sketch* s, uint32_t row_col) { try { s->row_col_update(row_col); return 0; } catch (...) { return 1; } }
WRAP uint32_t w_cpc_num_coupons(const cpc_sketch* s) { return s->get_num_coupons(); }
WRAP uint8_t w_cpc_is_empty(const cpc_sketch* s) { return s->is_empty(); }
WRAP int w_cpc_validate(const cpc_sketch* s) { try { return s->validate() ? 1 : 0; } catch (...) { return -1; } }
WRAP int w_cpc_matrix(const cpc_sketch* s, uint64_t* rows, uint32_t k) { try { auto m = s->build_bit_matrix(); for (uint32_t i = 0; i < k; i++) rows[i] = m[i]; return 0; } catch (...) { return 1; } }
WRAP uint8_t w_cpc_window_offset(const cpc_sketch* s) { return s->window_offset; }
WRAP uint32_t w_cpc_window_size(const cpc_sketch* s) { return (uint32_t)s->sliding_window.size(); }
