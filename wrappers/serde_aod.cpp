// wrappers: compact_array_tuple_sketch<array<double>> images (C10: documented layout of the array-of-doubles tuple family, bytes path)
#include "array_tuple_sketch.hpp"
#include "../wrappers/serde_common.hpp"
using namespace datasketches;
typedef array<double> arr;
typedef compact_array_tuple_sketch<arr> cats;
WRAP uint16_t w_seed_hash(uint64_t seed) { return compute_seed_hash(seed); }
// sketch from parts (the constructor every set operation / deserializer uses), n entries with nv values each (row-major value bit patterns)
WRAP cats* w_aod_make(uint8_t is_empty, uint8_t is_ordered, uint16_t seed_hash, uint64_t theta, const uint64_t* keys, const uint64_t* value_bits, uint32_t n, uint8_t nv) {
  try {
    std::vector<std::pair<uint64_t, arr>> v; v.reserve(n);
    for (uint32_t i = 0; i < n; i++) { arr a(nv, 0); for (uint8_t j = 0; j < nv; j++) a[j] = bitsd(value_bits[i * nv + j]); v.push_back(std::pair<uint64_t, arr>(keys[i], std::move(a))); }
    return new cats(is_empty, is_ordered, seed_hash, theta, std::move(v), nv);
  } catch (...) { return nullptr; }
}
WRAP void w_aod_delete(cats* c) { delete c; }
WRAP int64_t w_aod_serialize(const cats* c, uint8_t* out, uint64_t cap) { try { auto b = c->serialize(0); return emit(b, out, cap); } catch (...) { return -1; } }
WRAP cats* w_aod_deser(const uint8_t* bytes, uint64_t size, uint64_t seed) { try { return new cats(cats::deserialize(bytes, size, seed)); } catch (...) { return nullptr; } }
WRAP uint64_t w_aod_theta(const cats* c) { return c->get_theta64(); }
WRAP uint32_t w_aod_num(const cats* c) { return c->get_num_retained(); }
WRAP uint8_t w_aod_is_empty(const cats* c) { return c->is_empty(); }
WRAP uint8_t w_aod_is_ordered(const cats* c) { return c->is_ordered(); }
WRAP uint8_t w_aod_num_values(const cats* c) { return c->get_num_values(); }
WRAP uint64_t w_aod_key(const cats* c, uint32_t i) { return c->entries_[i].first; }
WRAP uint64_t w_aod_value(const cats* c, uint32_t i, uint8_t j) { return dbits(c->entries_[i].second[j]); }
