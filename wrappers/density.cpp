// wrappers: density_sketch<double> structure-level access (C20): level contents are injected, the public iterator / getters are real
#include "density_sketch.hpp"
using namespace datasketches;
struct unit_kernel { double operator()(const std::vector<double>& a, const std::vector<double>& b) const { return (a[0] == b[0]) ? 1.0 : 0.0; } };
typedef density_sketch<double, unit_kernel> DS;
WRAP DS* w_ds_new(uint16_t k, uint32_t dim) { try { return new DS(k, dim); } catch (...) { return nullptr; } }
WRAP void w_ds_delete(DS* s) { delete s; }
// state injection: put one point (first coordinate x) into level h (levels are created as needed)
WRAP void w_ds_inject(DS* s, uint32_t level, double x) {
  while (s->levels_.size() <= level) s->levels_.push_back(DS::Level());
  std::vector<double> p(s->dim_, 0.0); p[0] = x; s->levels_[level].push_back(p); s->num_retained_++; s->n_ += (1ULL << level);
}
WRAP uint64_t w_ds_n(const DS* s) { return s->get_n(); }
WRAP uint32_t w_ds_num_retained(const DS* s) { return s->get_num_retained(); }
WRAP uint8_t w_ds_is_empty(const DS* s) { return s->is_empty(); }
WRAP int32_t w_ds_items(const DS* s, double* x, uint64_t* w, uint32_t cap) { try { uint32_t n = 0; for (auto p : *s) { if (n < cap) { x[n] = p.first[0]; w[n] = p.second; } ++n; } return (int32_t)n; } catch (...) { return -1; } }
WRAP int w_ds_update(DS* s, double x, uint32_t dim) { try { std::vector<double> p(dim, 0.0); p[0] = x; s->update(p); return 0; } catch (...) { return 1; } }
