// wrappers: theta set operations (C02) over compact / update sketches. No hashing is involved (hashes are data here).
#include "theta_sketch.hpp"
#include "theta_union.hpp"
#include "theta_intersection.hpp"
#include "theta_a_not_b.hpp"
using namespace datasketches;
typedef update_theta_sketch uts;
typedef compact_theta_sketch cts;
typedef theta_union tun;
typedef theta_intersection tin;

WRAP uint16_t w_seed_hash(uint64_t seed) { return compute_seed_hash(seed); }
// compact sketch from parts (the library's own 5-argument constructor, used by every set operation to build results)
WRAP cts* w_cts_make(uint8_t is_empty, uint8_t is_ordered, uint16_t seed_hash, uint64_t theta, const uint64_t* e, uint32_t n) {
  std::vector<uint64_t> v; v.reserve(n); for (uint32_t i = 0; i < n; i++) v.push_back(e[i]);
  return new cts(is_empty, is_ordered, seed_hash, theta, std::move(v));
}
WRAP void w_cts_delete(cts* c) { delete c; }
WRAP uint64_t w_cts_theta(const cts* c) { return c->get_theta64(); }
WRAP uint32_t w_cts_num(const cts* c) { return c->get_num_retained(); }
WRAP uint8_t w_cts_is_empty(const cts* c) { return c->is_empty(); }
WRAP uint8_t w_cts_is_ordered(const cts* c) { return c->is_ordered(); }
WRAP uint16_t w_cts_seed_hash(const cts* c) { return c->get_seed_hash(); }
WRAP uint64_t w_cts_entry(const cts* c, uint32_t i) { return c->entries_[i]; }
WRAP uint32_t w_cts_entries(const cts* c, uint64_t* out, uint32_t cap) { uint32_t n = 0; for (auto h : *c) { if (n < cap) out[n] = h; ++n; } return n; }
// update sketch operand by state injection (unit level, as in C01)
WRAP uts* w_uts_new(uint8_t lg_cur, uint8_t lg_nom, uint64_t theta, uint64_t seed) { return new uts(lg_cur, lg_nom, resize_factor::X1, 1.0f, theta, seed, std::allocator<uint64_t>()); }
WRAP void w_uts_delete(uts* s) { delete s; }
WRAP void w_uts_set_slot(uts* s, uint32_t i, uint64_t v) { s->table_.entries_[i] = v; }
WRAP void w_uts_set_num(uts* s, uint32_t n) { s->table_.num_entries_ = n; }
WRAP void w_uts_set_empty(uts* s, uint8_t e) { s->table_.is_empty_ = e; }
WRAP uint32_t w_uts_find(const uts* s, uint64_t key, int* found) { auto r = s->table_.find(key); *found = r.second; return (uint32_t)(r.first - s->table_.entries_); }
// union (public builder)
WRAP tun* w_tu_new(uint8_t lg_k, uint64_t seed) { try { return new tun(tun::builder().set_lg_k(lg_k).set_seed(seed).build()); } catch (...) { return nullptr; } }
WRAP void w_tu_delete(tun* u) { delete u; }
WRAP int w_tu_update_c(tun* u, const cts* s) { try { u->update(*s); return 0; } catch (...) { return 1; } }
WRAP int w_tu_update_u(tun* u, const uts* s) { try { u->update(*s); return 0; } catch (...) { return 1; } }
WRAP cts* w_tu_result(const tun* u, uint8_t ordered) { try { return new cts(u->get_result(ordered)); } catch (...) { return nullptr; } }
WRAP int w_tu_reset(tun* u) { try { u->reset(); return 0; } catch (...) { return 1; } }
// unit-level union state (private): table below the public minimum so that get_result has to trim
WRAP tun* w_tu_new_unit(uint8_t lg_cur, uint8_t lg_nom, uint64_t theta, uint64_t seed) { return new tun(lg_cur, lg_nom, resize_factor::X1, 1.0f, theta, seed, std::allocator<uint64_t>()); }
WRAP void w_tu_set_slot(tun* u, uint32_t i, uint64_t v) { u->state_.table_.entries_[i] = v; }
WRAP void w_tu_set_state(tun* u, uint32_t num, uint8_t is_empty, uint64_t union_theta) { u->state_.table_.num_entries_ = num; u->state_.table_.is_empty_ = is_empty; u->state_.union_theta_ = union_theta; }
WRAP uint32_t w_tu_find(const tun* u, uint64_t key, int* found) { auto r = u->state_.table_.find(key); *found = r.second; return (uint32_t)(r.first - u->state_.table_.entries_); }
// intersection
WRAP tin* w_ti_new(uint64_t seed) { return new tin(seed); }
WRAP void w_ti_delete(tin* t) { delete t; }
WRAP int w_ti_update_c(tin* t, const cts* s) { try { t->update(*s); return 0; } catch (...) { return 1; } }
WRAP int w_ti_update_u(tin* t, const uts* s) { try { t->update(*s); return 0; } catch (...) { return 1; } }
WRAP uint8_t w_ti_has_result(const tin* t) { return t->has_result(); }
WRAP cts* w_ti_result(const tin* t, uint8_t ordered) { try { return new cts(t->get_result(ordered)); } catch (...) { return nullptr; } }
// a-not-b
WRAP cts* w_anb_cc(uint64_t seed, const cts* a, const cts* b, uint8_t ordered) { try { theta_a_not_b x(seed); return new cts(x.compute(*a, *b, ordered)); } catch (...) { return nullptr; } }
WRAP cts* w_anb_uc(uint64_t seed, const uts* a, const cts* b, uint8_t ordered) { try { theta_a_not_b x(seed); return new cts(x.compute(*a, *b, ordered)); } catch (...) { return nullptr; } }
WRAP cts* w_anb_cu(uint64_t seed, const cts* a, const uts* b, uint8_t ordered) { try { theta_a_not_b x(seed); return new cts(x.compute(*a, *b, ordered)); } catch (...) { return nullptr; } }
