#!/usr/bin/env python3
"""run.py <PROPERTY-ID> [--tier quick|thorough] [--only SUBSTR] [--jobs N] [--replay FILE]

Solver-based check of one property of /repo (apache/datasketches-cpp):
  /repo headers --clang++-14 -emit-llvm--> IR --tool/ll2c--> C --goto-cc/cbmc--> verdict per query
Every run regenerates the encoding from /repo's current working tree.
Exit 0: every claimed obligation discharged (holds within the stated bounds, witness reachable).
Exit 1: a counterexample was found by the solver AND reproduced natively against the g++ build of
        the real code ("VIOLATION property=<id> replay=<path>" is printed).
Exit 2: inconclusive (timeout, unwinding bound not discharged, encoding/translator problem); no VIOLATION line.
"""
import sys, os, re, json, time, subprocess, hashlib, shutil, importlib.util, argparse, resource
from concurrent.futures import ThreadPoolExecutor, as_completed

VERIF = os.path.dirname(os.path.abspath(__file__))
REPO = os.environ.get('VERIF_REPO', '/repo')
BUILD = os.path.join(VERIF, 'build')
TOOL = os.path.join(VERIF, 'tool')
FAMILIES = ['common', 'theta', 'tuple', 'hll', 'cpc', 'kll', 'req', 'quantiles', 'fi', 'count', 'sampling', 'tdigest', 'filters', 'density']
INCS = [f'-I{REPO}/{f}/include' for f in FAMILIES] + [f'-I{REPO}/common/test']
CLANG_FLAGS = ['-std=c++17', '-O1', '-fno-vectorize', '-fno-slp-vectorize', '-fno-unroll-loops', '-S', '-emit-llvm',
               '-DDATASKETCHES_VERIF', '-DVERIF_SYMBOLIC', '-include', f'{TOOL}/prelude.hpp', '-Wno-everything']
# CBMC 6 default checks stay on (bounds, pointer, pointer-primitive, div-by-zero, undefined-shift, unwinding assertions);
# signed-overflow is off because ll2c emits unsigned arithmetic with explicit masks (LLVM add/sub/mul wrap unless nsw, and
# -O1 IR from these headers relies on wrap-around in the hash functions). Allocation failure is outside every claim.
CBMC_FLAGS = ['--verbosity', '8', '--max-field-sensitivity-array-size', '1024', '--unwinding-assertions', '--drop-unused-functions', '--no-malloc-may-fail', '--no-signed-overflow-check']


def log(*a):
    print(*a, flush=True)


def sh(cmd, timeout=None, cwd=None, mem_gb=None, env=None):
    """run a command, return (rc, stdout+stderr, wall, maxrss_kb). rc=-9 on timeout."""
    def pre():
        os.setsid()
        if mem_gb:
            b = int(mem_gb * (1 << 30))
            resource.setrlimit(resource.RLIMIT_AS, (b, b))
    t0 = time.time()
    p = subprocess.Popen(cmd, stdout=subprocess.PIPE, stderr=subprocess.STDOUT, cwd=cwd, preexec_fn=pre, env=env)
    try:
        out, _ = p.communicate(timeout=timeout)
        rc = p.returncode
    except subprocess.TimeoutExpired:
        try:
            os.killpg(p.pid, 9)
        except Exception:
            pass
        out, _ = p.communicate()
        rc = -9
    ru = resource.getrusage(resource.RUSAGE_CHILDREN)
    return rc, out.decode('utf-8', 'replace'), time.time() - t0, ru.ru_maxrss


def race(cmds, timeout=None, mem_gb=None):
    """run several solver back ends on the same query in parallel; the first one that ends with a verdict wins, the others are killed"""
    def pre():
        os.setsid()
        if mem_gb:
            b = int(mem_gb * (1 << 30)); resource.setrlimit(resource.RLIMIT_AS, (b, b))
    import tempfile
    t0 = time.time(); procs = []
    for c in cmds:
        f = tempfile.TemporaryFile()
        procs.append((subprocess.Popen(c, stdout=f, stderr=subprocess.STDOUT, preexec_fn=pre), f, c))
    winner = None; done = set()
    while winner is None and len(done) < len(procs) and (timeout is None or time.time() - t0 < timeout):
        for i, (p, f, c) in enumerate(procs):
            if i in done: continue
            rc = p.poll()
            if rc is not None:
                done.add(i)
                if rc in (0, 10):
                    winner = i; break
        time.sleep(0.2)
    for i, (p, f, c) in enumerate(procs):
        if p.poll() is None:
            try: os.killpg(p.pid, 9)
            except Exception: pass
            p.wait()
    pick = winner if winner is not None else (sorted(done)[0] if done else 0)
    p, f, c = procs[pick]
    f.seek(0); out = f.read().decode('utf-8', 'replace')
    rc = p.returncode if (winner is not None or pick in done) else -9
    if winner is None and len(done) < len(procs): rc = -9
    for _, ff, _ in procs: ff.close()
    ru = resource.getrusage(resource.RUSAGE_CHILDREN)
    return rc, out, time.time() - t0, ru.ru_maxrss, c


class Inconclusive(Exception):
    pass


def ensure_tool():
    os.makedirs(BUILD, exist_ok=True)
    exe = os.path.join(BUILD, 'll2c')
    src = os.path.join(TOOL, 'll2c.cpp')
    if not os.path.exists(exe) or os.path.getmtime(exe) < os.path.getmtime(src):
        cf = subprocess.check_output(['llvm-config-14', '--cxxflags']).decode().split()
        cf = [f for f in cf if f not in ('-fno-exceptions',) and not f.startswith('-std=')]
        ld = subprocess.check_output(['llvm-config-14', '--ldflags', '--libs']).decode().split()
        rc, out, _, _ = sh(['g++', '-O1', '-std=c++17', src, '-o', exe + '.tmp'] + cf + ld)
        if rc != 0:
            raise Inconclusive('ll2c build failed:\n' + out[-3000:])
        os.replace(exe + '.tmp', exe)
    return exe


def defs_args(defs):
    return [f'-D{k}={v}' if v is not None else f'-D{k}' for k, v in sorted(defs.items())]


def tag_of(*parts):
    return hashlib.sha1('|'.join(str(p) for p in parts).encode()).hexdigest()[:10]


_tu_cache = {}


def gen_tu(tu, tu_defs):
    """wrapper TU -> IR -> C (+api header, externs list). Cached per process; always rebuilt from /repo."""
    key = (tu, tuple(sorted(tu_defs.items())))
    if key in _tu_cache:
        return _tu_cache[key]
    name = tu + ('-' + tag_of(*key[1]) if tu_defs else '')
    d = os.path.join(BUILD, 'tu', name)
    os.makedirs(d, exist_ok=True)
    src = os.path.join(VERIF, 'wrappers', tu + '.cpp')
    ll = os.path.join(d, 'tu.ll')
    t0 = time.time()
    opt = tu_defs.get('__OPT')    # optional optimisation level override for this TU (e.g. -O0 keeps multiplications as written)
    cflags = []
    for f in CLANG_FLAGS:
        cflags += (opt.split() if (opt and f == '-O1') else [f])
    rc, out, _, _ = sh(['clang++-14'] + cflags + INCS + [f'-I{TOOL}'] + defs_args({k: v for k, v in tu_defs.items() if k != '__OPT'}) + [src, '-o', ll], timeout=600)
    if rc != 0:
        raise Inconclusive(f'clang failed on {tu}:\n' + out[-4000:])
    c = os.path.join(d, 'tu.c')
    rc, out, _, _ = sh([ensure_tool(), ll, c, os.path.join(d, 'externs.txt'), os.path.join(d, 'api.h')], timeout=600, env=dict(os.environ, LL2C_CUTS=os.path.join(TOOL, 'cuts.txt')))
    if rc != 0:
        raise Inconclusive(f'll2c failed on {tu}:\n' + out[-4000:])
    info = {'dir': d, 'll': ll, 'c': c, 'api': os.path.join(d, 'api.h'), 'gen_s': round(time.time() - t0, 2),
            'ir_lines': sum(1 for _ in open(ll)), 'c_lines': sum(1 for _ in open(c)),
            'functions': sorted(set(re.findall(r'^define [^@]*@([^\s(]+)\(', open(ll).read(), re.M)))}
    _tu_cache[key] = info
    return info


_gb_lock = __import__('threading').Lock()


def tu_gb(tui, c_defs):
    """goto binary of the translated TU for one set of C-level defines (e.g. VERIF_NEW_CAPN); parsed once, linked into every query"""
    with _gb_lock:
        key = ('gb', tui['dir'], tuple(sorted(c_defs.items())))
        if key in _tu_cache:
            return _tu_cache[key]
        gb = os.path.join(tui['dir'], 'tu' + ('-' + tag_of(*key[2]) if c_defs else '') + '.gb')
        rc, out, _, _ = sh(['goto-cc', '-DVERIF_CBMC', '-c', f'-I{TOOL}'] + defs_args(c_defs) + [tui['c'], '-o', gb], timeout=900)
        if rc != 0:
            raise Inconclusive(f'goto-cc failed on translated C in {tui["dir"]}:\n' + out[-4000:])
        _tu_cache[key] = gb
        return gb


def rt_gb():
    """goto binaries of the runtime (exception model, allocation, libstdc++ out-of-line stubs)"""
    outs = []
    for n in ('verif_rt', 'verif_stubs'):
        src = os.path.join(TOOL, n + '.c'); gb = os.path.join(BUILD, n + '.gb')
        if not os.path.exists(gb) or any(os.path.getmtime(x) > os.path.getmtime(gb) for x in (src, os.path.join(TOOL, 'verif_rt.h'))):
            rc, out, _, _ = sh(['goto-cc', '-DVERIF_CBMC', '-c', f'-I{TOOL}', src, '-o', gb + '.tmp'], timeout=300)
            if rc != 0:
                raise Inconclusive('goto-cc failed on runtime:\n' + out[-3000:])
            os.replace(gb + '.tmp', gb)
        outs.append(gb)
    return outs


class Q:
    """one solver query = one harness instance"""
    def __init__(self, name, tu, harness, defs=None, tu_defs=None, unwind=8, unwindset=None, timeout=None,
                 tiers=('quick', 'thorough'), solver=None, mem_gb=None, allow_nobody=(), known=None, note='',
                 native_vectors=300, object_bits=None, slice_formula=False, extra_flags=(), c_defs=None):
        self.c_defs = dict(c_defs or {})
        self.name, self.tu, self.harness = name, tu, harness
        self.defs = dict(defs or {}); self.tu_defs = dict(tu_defs or {})
        self.unwind, self.unwindset = unwind, dict(unwindset or {})
        self.timeout, self.tiers, self.solver, self.mem_gb = timeout, tiers, solver, mem_gb
        self.allow_nobody = set(allow_nobody); self.known = known; self.note = note
        self.native_vectors = native_vectors; self.object_bits = object_bits
        self.slice_formula = slice_formula; self.extra_flags = list(extra_flags)


NOBODY_OK = {'__CPROVER_assume', 'nondet_u64', '__gxx_personality_v0'}


def list_loops(gb):
    rc, out, _, _ = sh(['goto-instrument', '--show-loops', gb], timeout=120)
    return re.findall(r'^Loop (\S+):', out, re.M)


def parse_cbmc(out):
    res = {'props': {}, 'nobody': sorted(set(re.findall(r'no body for function (\S+)', out)))}
    for m in re.finditer(r'^\[([^\]]+)\] (.*?): (SUCCESS|FAILURE|UNKNOWN|ERROR)\s*$', out, re.M):
        res['props'][m.group(1)] = (m.group(2), m.group(3))
    m = re.search(r'(\d+) variables, (\d+) clauses', out)
    res['vars'], res['clauses'] = (int(m.group(1)), int(m.group(2))) if m else (0, 0)
    ms = re.findall(r'Runtime Solver: ([\d.]+)s', out)
    res['solver_s'] = round(sum(float(x) for x in ms), 3)
    m = re.search(r'Runtime Symex: ([\d.]+)s', out)
    res['symex_s'] = float(m.group(1)) if m else None
    res['verdict_line'] = 'SUCCESSFUL' if 'VERIFICATION SUCCESSFUL' in out else ('FAILED' if 'VERIFICATION FAILED' in out else 'NONE')
    m = re.search(r'size of program expression: (\d+) steps', out)
    res['steps'] = int(m.group(1)) if m else 0
    return res


def cbmc_cmd(q, gb, tier, trace=False, scale=1, hunt=False):
    flags = [f for f in CBMC_FLAGS if not (hunt and f == '--unwinding-assertions')] + (['--no-unwinding-assertions'] if hunt else [])
    cmd = ['cbmc', gb, '--function', 'harness'] + flags + ['--unwind', str(2 if hunt else q.unwind * scale)]
    if q.unwindset:
        loops = list_loops(gb)
        us = []
        for pat, n in q.unwindset.items():
            for l in loops:
                fn = l.rsplit('.', 1)[0]
                if re.search(pat, fn):
                    us.append(f'{l}:{n * scale}')
        if us:
            cmd += ['--unwindset', ','.join(us)]
    if q.object_bits:
        cmd += ['--object-bits', str(q.object_bits)]
    if q.slice_formula and not trace:   # slicing removes the input log the replay needs
        cmd += ['--slice-formula']
    if (q.solver or 'cadical') == 'cadical':   # default: minisat showed heavy-tailed run times on these instances (8 s vs > 240 s for the same query)
        cmd += ['--sat-solver', 'cadical']
    elif q.solver == 'kissat':
        cmd += ['--external-sat-solver', 'kissat']
    cmd += q.extra_flags
    if trace:
        cmd += ['--trace', '--stop-on-fail']
    return cmd


def build_query_gb(q, tui, qd, witness=True):
    h = os.path.join(VERIF, 'harness', q.harness)
    gb = os.path.join(qd, 'q.gb' if witness else 'q_nw.gb')
    defs = dict(q.defs)
    if not witness:
        defs['VERIF_NO_WITNESS'] = None
    rc, out, _, _ = sh(['goto-cc', '-DVERIF_CBMC', f'-I{TOOL}', f'-I{VERIF}', f'-I{tui["dir"]}'] + defs_args(defs) + [h, tu_gb(tui, q.c_defs)] + rt_gb() + ['-o', gb], timeout=600)
    if rc != 0:
        raise Inconclusive(f'goto-cc failed on harness {q.harness}:\n' + out[-4000:])
    return gb


def native_build(q, tui, qd, real, sanitize=False):
    """build the harness natively: real=True -> g++ build of the real wrappers from /repo; False -> gcc build of translated C"""
    h = os.path.join(VERIF, 'harness', q.harness)
    exe = os.path.join(qd, ('real' if real else 'xlat') + ('_san' if sanitize else ''))
    san = ['-fsanitize=address,undefined', '-fno-sanitize-recover=undefined', '-fno-omit-frame-pointer', '-g'] if sanitize else []
    objs = []
    common = ['-O1', '-w', '-DVERIF_NATIVE', f'-I{TOOL}', f'-I{VERIF}', f'-I{tui["dir"]}'] + san
    for src in [h, os.path.join(TOOL, 'harness_native.c')]:
        o = os.path.join(qd, os.path.basename(src) + ('.r' if real else '.x') + ('s' if sanitize else '') + '.o')
        rc, out, _, _ = sh(['gcc', '-std=gnu11', '-c'] + common + defs_args(q.defs) + [src, '-o', o], timeout=300)
        if rc != 0:
            raise Inconclusive(f'gcc failed on {src}:\n' + out[-3000:])
        objs.append(o)
    if real:
        key = ('real', q.tu, tuple(sorted(q.tu_defs.items())), sanitize)
        o = os.path.join(tui['dir'], 'real' + ('_san' if sanitize else '') + '.o')
        if key not in _tu_cache:
            rc, out, _, _ = sh(['g++', '-std=c++17', '-c', '-O1', '-w', '-DDATASKETCHES_VERIF', '-include', f'{TOOL}/prelude.hpp', f'-I{TOOL}'] + san + INCS
                               + defs_args({k: v for k, v in q.tu_defs.items() if k != '__OPT'}) + [os.path.join(VERIF, 'wrappers', q.tu + '.cpp'), '-o', o], timeout=900)
            if rc != 0:
                raise Inconclusive(f'g++ failed on real wrappers {q.tu}:\n' + out[-3000:])
            _tu_cache[key] = o
        rc, out, _, _ = sh(['g++'] + san + objs + [o, '-o', exe, '-lm'], timeout=300)
    else:
        key = ('xlat', q.tu, tuple(sorted(q.tu_defs.items())))
        o = os.path.join(tui['dir'], 'xlat.o')
        if key not in _tu_cache:
            rc, out, _, _ = sh(['gcc', '-std=gnu11', '-c', '-O1', '-w', f'-I{TOOL}', tui['c'], '-o', o], timeout=900)
            if rc != 0:
                raise Inconclusive(f'gcc failed on translated {q.tu}:\n' + out[-3000:])
            rc, out, _, _ = sh(['gcc', '-std=gnu11', '-c', '-O1', '-w', f'-I{TOOL}', os.path.join(TOOL, 'verif_rt.c'), '-o', os.path.join(tui['dir'], 'rt.o')], timeout=300)
            rc2, out2, _, _ = sh(['gcc', '-std=gnu11', '-c', '-O1', '-w', f'-I{TOOL}', os.path.join(TOOL, 'verif_stubs.c'), '-o', os.path.join(tui['dir'], 'stubs.o')], timeout=300)
            if rc or rc2:
                raise Inconclusive('gcc failed on runtime:\n' + out + out2)
            # out-of-line C++ library symbols the IR merely references (vtables of print functions etc.): weak aborting stubs
            es = os.path.join(tui['dir'], 'extstub.c')
            with open(es, 'w') as f:
                f.write('#include <stdio.h>\n#include <stdlib.h>\n')
                for ln in open(os.path.join(tui['dir'], 'externs.txt')):
                    n = ln.strip()
                    if n.startswith('@'):
                        if n[1:].startswith('_Z'):
                            f.write(f'__attribute__((weak)) char {n[1:]}[4096];\n')
                    elif n.startswith('_Z'):
                        f.write(f'__attribute__((weak)) void {n}(void) {{ fprintf(stderr, "unencoded external function reached: {n}\\n"); abort(); }}\n')
            rc, out, _, _ = sh(['gcc', '-std=gnu11', '-c', '-w', es, '-o', os.path.join(tui['dir'], 'extstub.o')], timeout=300)
            if rc:
                raise Inconclusive('gcc failed on extern stubs:\n' + out)
            _tu_cache[key] = o
        rc, out, _, _ = sh(['gcc'] + objs + [o, os.path.join(tui['dir'], 'rt.o'), os.path.join(tui['dir'], 'stubs.o'), os.path.join(tui['dir'], 'extstub.o'), '-o', exe, '-lm'], timeout=300)
    if rc != 0:
        raise Inconclusive(f'link failed ({"real" if real else "xlat"}) for {q.name}:\n' + out[-3000:])
    return exe


_native_lock = __import__('threading').Lock()


def translator_validation(q, tui, qd, seed):
    """same harness, same pseudo-random inputs: translated C (gcc) vs real wrappers (g++). Outputs must be identical."""
    if q.native_vectors <= 0:
        return {'vectors': 0, 'nonvacuous': 0, 'mismatches': 0, 'skipped': True}
    with _native_lock:
        ex = native_build(q, tui, qd, real=False)
        er = native_build(q, tui, qd, real=True)
    rc1, o1, _, _ = sh([ex, '--random', str(seed), str(q.native_vectors)], timeout=300)
    rc2, o2, _, _ = sh([er, '--random', str(seed), str(q.native_vectors)], timeout=300)
    l1, l2 = o1.strip().split('\n'), o2.strip().split('\n')
    mism = [(a, b) for a, b in zip(l1, l2) if a != b]
    if len(l1) != len(l2):
        mism.append((f'{len(l1)} lines rc={rc1}', f'{len(l2)} lines rc={rc2}'))
    m = re.search(r'SUMMARY nonvacuous=(\d+) of (\d+)', o2)
    failing = [l for l in l2 if re.match(r'\d+ R \S+ [1-9]', l)]
    return {'vectors': q.native_vectors, 'nonvacuous': int(m.group(1)) if m else 0, 'mismatches': len(mism),
            'first_mismatch': mism[:2], 'native_assert_failures': len(failing), 'first_failing': failing[:1]}


def extract_nd(trace):
    vals = {}
    for m in re.finditer(r'verif_nd_log\[(\d+)l?\]\s*=\s*(-?\d+)', trace):
        vals[int(m.group(1))] = int(m.group(2)) & ((1 << 64) - 1)
    if not vals:   # fall back to the order of the nondet draws in the trace
        return [int(x) & ((1 << 64) - 1) for x in re.findall(r'return_value_nondet_u64=(-?\d+)', trace)]
    return [vals.get(i, 0) for i in range(max(vals) + 1)]


def run_query(q, tier, seed, prop_id):
    r = {'query': q.name, 'harness': q.harness, 'tu': q.tu, 'params': q.defs, 'unwind': q.unwind, 'unwindset': q.unwindset,
         'backend': q.solver or 'cadical', 'verdict': 'inconclusive', 'note': q.note}
    t0 = time.time()
    try:
        tui = gen_tu(q.tu, q.tu_defs)
        qd = os.path.join(BUILD, 'q', prop_id, re.sub(r'[^A-Za-z0-9_.-]', '_', q.name))
        os.makedirs(qd, exist_ok=True)
        r['translator_validation'] = translator_validation(q, tui, qd, seed)
        if r['translator_validation'].get('mismatches'):
            r['verdict'] = 'encoding-broken'
            r['detail'] = 'translated C and real code disagree on random vectors: ' + json.dumps(r['translator_validation']['first_mismatch'])
            return r
        gb = build_query_gb(q, tui, qd)
        timeout = q.timeout or (120 if tier == 'quick' else 900)
        if os.environ.get('VERIF_TIMEOUT_CAP'):
            timeout = min(timeout, int(os.environ['VERIF_TIMEOUT_CAP']))
        mem = q.mem_gb or (8 if tier == 'quick' else 24)
        scale = 1; hunt = False
        for attempt in range(3):
            cmd = cbmc_cmd(q, gb, tier, scale=scale)
            if q.solver is None and not os.environ.get('VERIF_NO_RACE'):
                # portfolio: cadical and minisat raced (run times of either are heavy-tailed on these instances: 8 s vs > 240 s observed both ways)
                alt = [x for x in cmd if x not in ('--sat-solver', 'cadical')]
                rc, out, wall, rss, cmd = race([cmd, alt], timeout=timeout, mem_gb=mem)
            else:
                rc, out, wall, rss = sh(cmd, timeout=timeout, mem_gb=mem)
            r['backend'] = 'minisat' if '--sat-solver' not in cmd else cmd[cmd.index('--sat-solver') + 1]
            open(os.path.join(qd, 'cbmc.log'), 'w').write(' '.join(cmd) + '\n' + out)
            p = parse_cbmc(out)
            r.update({'vars': p['vars'], 'clauses': p['clauses'], 'solver_s': p['solver_s'], 'symex_s': p['symex_s'], 'steps': p['steps'],
                      'wall_s': round(wall, 2), 'rss_kb': rss, 'no_body': p['nobody'], 'cmd': ' '.join(cmd[:3]) + ' ...'})
            if rc == -9 or p['verdict_line'] == 'NONE':
                r['detail'] = f'timeout after {timeout}s' if rc == -9 else 'cbmc produced no verdict (rc=%d): %s' % (rc, out[-300:])
                # bug-hunting fallback (under-approximation: repo-side loops cut after 1 iteration, no unwinding assertions):
                # can only turn "inconclusive" into a natively confirmed violation, never into "holds"
                if os.environ.get('VERIF_NO_HUNT'):
                    return r
                hunt = True
                cmd = cbmc_cmd(q, gb, tier, hunt=True)
                rc, out, wall, rss = sh(cmd, timeout=timeout, mem_gb=mem)
                open(os.path.join(qd, 'cbmc_hunt.log'), 'w').write(' '.join(cmd) + '\n' + out)
                p = parse_cbmc(out)
                hf = {k: v for k, v in p['props'].items() if v[1] == 'FAILURE' and 'WITNESS:' not in v[0] and '.no-body.' not in k and 'ENCODING-BOUND' not in v[0]}
                if rc == -9 or p['verdict_line'] == 'NONE' or not hf:
                    return r
                r['hunt'] = 'bug-hunting pass (unwind 2, no unwinding assertions) found failing checks'
                fails = hf; real_fails = hf; unwind_fails = {}
                break
            wit = [k for k, v in p['props'].items() if ('WITNESS:' in v[0])]
            fails = {k: v for k, v in p['props'].items() if v[1] == 'FAILURE' and not ('WITNESS:' in v[0])}
            unwind_fails = {k: v for k, v in fails.items() if 'unwinding assertion' in v[0] or 'recursion unwinding' in v[0]}
            nobody_fails = {k: v for k, v in fails.items() if '.no-body.' in k}
            if nobody_fails:
                r['detail'] = 'a function without body is reachable (its effect is not encoded): ' + ', '.join(sorted({k.split('.no-body.')[1] for k in nobody_fails}))
                return r
            bound_fails = {k: v for k, v in fails.items() if 'ENCODING-BOUND' in v[0]}
            if bound_fails:
                r['detail'] = 'encoding bound exceeded (not a property violation): ' + '; '.join(sorted({v[0] for v in bound_fails.values()}))
                return r
            real_fails = {k: v for k, v in fails.items() if k not in unwind_fails}
            r['properties_checked'] = len(p['props'])
            r['witness_reached'] = bool(wit) and any(p['props'][k][1] == 'FAILURE' for k in wit)
            if real_fails:
                break
            if unwind_fails and attempt < 2:
                scale *= 2
                r['rebound'] = scale
                continue
            break
        if not real_fails and not unwind_fails:
            if not r['witness_reached']:
                r['verdict'] = 'vacuous'
                r['detail'] = 'WITNESS assertion not violated: harness end unreachable (assumptions unsatisfiable?)'
            else:
                r['verdict'] = 'holds'
            return r
        r['failed_properties'] = {k: v[0] for k, v in list(fails.items())[:8]}
        # counterexample: re-solve without witness, with trace, replay natively against the real code
        gbn = build_query_gb(q, tui, qd, witness=False)
        cmd = cbmc_cmd(q, gbn, tier, trace=True, scale=scale, hunt=hunt)
        rc, out, wall, rss = sh(cmd, timeout=timeout * 2, mem_gb=mem)
        open(os.path.join(qd, 'cbmc_trace.log'), 'w').write(' '.join(cmd) + '\n' + out)
        nd = extract_nd(out)
        r['counterexample_inputs'] = nd[:64]
        rp = os.path.join(VERIF, 'replays', f'{prop_id}-{re.sub(r"[^A-Za-z0-9_.-]", "_", q.name)}.replay')
        os.makedirs(os.path.dirname(rp), exist_ok=True)
        with open(rp, 'w') as f:
            f.write('\n'.join(str(v) for v in nd) + '\n')
            f.write(f'# property={prop_id} query={q.name} harness={q.harness} tu={q.tu} defs={json.dumps(q.defs)} tu_defs={json.dumps(q.tu_defs)}\n')
        r['replay_file'] = rp
        with _native_lock:
            er = native_build(q, tui, qd, real=True, sanitize=True)
        env = dict(os.environ, ASAN_OPTIONS='detect_leaks=0:abort_on_error=0', UBSAN_OPTIONS='print_stacktrace=1')
        rc, out, _, _ = sh([er, '--replay', rp], timeout=60, env=env)
        r['replay_rc'] = rc
        r['replay_output'] = out[-1500:]
        if rc == -9:
            r['verdict'] = 'violation'; r['detail'] = 'native replay hangs (> 60 s)'
        elif rc == 1 or 'AddressSanitizer' in out or 'runtime error' in out or rc < 0 or rc > 100:
            r['verdict'] = 'violation'
            r['detail'] = 'counterexample reproduced on the g++ build of the real code'
        elif unwind_fails and not real_fails:
            r['verdict'] = 'inconclusive'; r['detail'] = 'unwinding assertion not discharged after 2 re-bounds; replay shows no failure'
        else:
            r['verdict'] = 'unreproduced'
            r['detail'] = 'solver counterexample did NOT reproduce natively (rc=%d): encoding or stub is suspect' % rc
        return r
    except Inconclusive as e:
        r['detail'] = str(e)[-3000:]
        return r
    finally:
        r['total_s'] = round(time.time() - t0, 2)


def load_known():
    kf = {'known': [], 'fixed': []}
    p = os.path.join(VERIF, 'known_findings.txt')
    if os.path.exists(p):
        for line in open(p):
            line = line.strip()
            if not line or line.startswith('#'):
                continue
            m = re.match(r'(known|fixed):\s+property=(\S+)\s+(?:query=(\S+)\s+)?(.*)', line)
            if m:
                kf[m.group(1)].append({'property': m.group(2), 'query': m.group(3), 'text': m.group(4)})
    return kf


def main():
    ap = argparse.ArgumentParser()
    ap.add_argument('prop')
    ap.add_argument('--tier', default=os.environ.get('VERIF_TIER', 'quick'))
    ap.add_argument('--only', default=None)
    ap.add_argument('--jobs', type=int, default=int(os.environ.get('VERIF_JOBS', '8')))
    ap.add_argument('--no-evidence', action='store_true')
    a = ap.parse_args()
    if a.prop == 'setup':
        ensure_tool(); rt_gb(); log('setup ok'); return
    tier = a.tier if a.tier in ('quick', 'thorough') else 'quick'
    seed = int(os.environ.get('VERIF_SEED', '1') or 1)
    t0 = time.time()
    spec_path = os.path.join(VERIF, 'specs', a.prop + '.py')
    spec = importlib.util.spec_from_file_location('spec_' + a.prop, spec_path)
    mod = importlib.util.module_from_spec(spec)
    mod.Q = Q
    spec.loader.exec_module(mod)
    queries = [q for q in mod.queries(tier) if tier in q.tiers and (not a.only or a.only in q.name)]
    meta = mod.META
    known = load_known()
    ensure_tool(); rt_gb()
    # generate each TU once up-front (serial: cheap, avoids races), then run queries in parallel
    try:
        for key in sorted({(q.tu, tuple(sorted(q.tu_defs.items()))) for q in queries}):
            i = gen_tu(key[0], dict(key[1]))
            log(f'[{a.prop}] encoded {key[0]} {dict(key[1]) or ""}: {i["ir_lines"]} IR lines -> {i["c_lines"]} C lines in {i["gen_s"]}s')
    except Inconclusive as e:
        log(f'[{a.prop}] ENCODING FAILED: {e}')
        results = [{'query': 'encoding', 'harness': '', 'params': {}, 'verdict': 'inconclusive', 'detail': str(e)[-2000:]}]
        write_evidence(a, tier, seed, meta, results, t0, [], [])
        sys.exit(2)
    results = []
    with ThreadPoolExecutor(max_workers=a.jobs) as ex:
        futs = {ex.submit(run_query, q, tier, seed, a.prop): q for q in queries}
        for f in as_completed(futs):
            r = f.result()
            results.append(r)
            log(f'[{a.prop}] {r["query"]}: {r["verdict"]} vars={r.get("vars")} solver={r.get("solver_s")}s wall={r.get("total_s")}s '
                f'tv={r.get("translator_validation", {}).get("nonvacuous")}/{r.get("translator_validation", {}).get("vectors")} {r.get("detail", "")[:300]}')
    results.sort(key=lambda r: r['query'])
    qmap = {q.name: q for q in queries}
    violations, known_hits, inconclusive = [], [], []
    for r in results:
        q = qmap.get(r['query'])
        if r['verdict'] == 'violation':
            kn = [k for k in known['known'] if k['property'] == a.prop and k['query'] and re.fullmatch(k['query'], r['query'])]
            if q is not None and q.known and kn:
                known_hits.append((r, kn[0]))
            else:
                violations.append(r)
        elif r['verdict'] != 'holds':
            if q is not None and q.known:
                continue  # a probe for a known finding that no longer reproduces is not an obligation
            inconclusive.append(r)
        elif q is not None and q.known:
            r['note'] = (r.get('note', '') + ' [known-finding probe: no longer violated]').strip()
    for r, k in known_hits:
        log(f'KNOWN-FINDING: property={a.prop} {k["text"]} (query {r["query"]}, replay={r.get("replay_file")})')
    for r in violations:
        log(f'VIOLATION property={a.prop} replay={r.get("replay_file")} query={r["query"]} failed={json.dumps(r.get("failed_properties", {}))[:400]}')
    for r in inconclusive:
        log(f'INCONCLUSIVE property={a.prop} query={r["query"]} verdict={r["verdict"]} {r.get("detail", "")[:400]}')
    if not a.no_evidence:
        write_evidence(a, tier, seed, meta, results, t0, violations, known_hits)
    log(f'[{a.prop}] tier={tier} queries={len(results)} holds={sum(r["verdict"] == "holds" for r in results)} '
        f'violations={len(violations)} known={len(known_hits)} inconclusive={len(inconclusive)} wall={time.time() - t0:.1f}s')
    if violations:
        sys.exit(1)
    if inconclusive:
        sys.exit(2)
    sys.exit(0)


def write_evidence(a, tier, seed, meta, results, t0, violations, known_hits):
    holds = [r for r in results if r['verdict'] == 'holds']
    nontrivial = {(r['harness'], json.dumps(r['params'], sort_keys=True)) for r in holds if r.get('witness_reached') and r.get('vars', 0) > 0}
    tv = [r.get('translator_validation', {}) for r in results]
    funcs = set()
    for k, v in _tu_cache.items():
        if isinstance(v, dict):
            funcs.update(v['functions'])
    ev = {
        'property_id': a.prop, 'tier': tier, 'seed': seed, 'level': 'model_checking',
        'coverage': {
            'evaluations': len(results),
            'distinct_nontrivial': len(nontrivial),
            'rule': 'one evaluation = one SAT/SMT query (cbmc) over the C translation of the LLVM IR of the real headers for one concrete shape '
                    '(sizes, counts) with symbolic contents/inputs; non-trivial = verdict "holds", formula has >0 solver variables and the '
                    'WITNESS assertion at the end of the harness was shown reachable in the same run; distinct = distinct (harness, parameters)',
            'obligations': len(results), 'discharged': len(holds),
            'samples': [{'query': r['query'], 'harness': r['harness'], 'params': r['params'], 'verdict': r['verdict'], 'vars': r.get('vars'),
                         'clauses': r.get('clauses'), 'solver_s': r.get('solver_s'), 'note': r.get('note', '')} for r in results[:12]],
            'queries': results,
            'functions_encoded_count': len(funcs),
            'functions_encoded': meta.get('functions_encoded', []),
            'bounds': meta.get('bounds', ''),
            'outside_claim': meta.get('outside', []),
            'stubs': meta.get('stubs', []),
            'solver_time_s': round(sum(r.get('solver_s') or 0 for r in results), 2),
            'translator_validation': {'vectors': sum(t.get('vectors', 0) for t in tv), 'nonvacuous': sum(t.get('nonvacuous', 0) for t in tv),
                                      'mismatches': sum(t.get('mismatches', 0) for t in tv)},
            'traces_validated_against_impl': sum(t.get('nonvacuous', 0) for t in tv),
            'known_findings_reported': [k['text'] for _, k in known_hits],
            'exhaustive': False,
        },
        'assumptions': meta.get('assumes', []) + [
            'cbmc 6.11 bit-precise semantics of the generated C; clang-14 -O1 lowering of the headers is semantics preserving',
            'll2c translation (validated on every run against the g++ build on pseudo-random vectors; counterexamples are replayed natively)',
            'allocation never fails (--no-malloc-may-fail); exception messages are not evaluated (throw macro), exception types not distinguished'],
        'wall_s': round(time.time() - t0, 2),
        'violations': len(violations),
    }
    os.makedirs(os.path.join(VERIF, 'evidence'), exist_ok=True)
    with open(os.path.join(VERIF, 'evidence', a.prop + '.json'), 'w') as f:
        json.dump(ev, f, indent=1, default=str)


if __name__ == '__main__':
    main()
