#!/usr/bin/env python3
"""regenerate MANIFEST.json from specs/*.py (META['manifest']) ; properties without a spec are listed not_applicable"""
import json, os, importlib.util
V = os.path.dirname(os.path.abspath(__file__))
ids = [json.loads(l)['id'] for l in open(os.path.join(V, 'properties.jsonl'))]
checks, na = [], []
NA_REASON = json.load(open(os.path.join(V, 'not_applicable.json'))) if os.path.exists(os.path.join(V, 'not_applicable.json')) else {}
for i in ids:
    p = os.path.join(V, 'specs', i + '.py')
    if not os.path.exists(p) or i in NA_REASON:
        na.append({'property_id': i, 'reason': NA_REASON.get(i, 'solver-based check not built yet in this session (see DESIGN.md section 2 for the plan)')})
        continue
    spec = importlib.util.spec_from_file_location('s' + i, p); m = importlib.util.module_from_spec(spec); m.Q = lambda *a, **k: None; spec.loader.exec_module(m)
    mm = m.META.get('manifest', {})
    checks.append({
        'property_id': i,
        'quick_cmd': f'python3 run.py {i} --tier quick',
        'thorough_cmd': f'python3 run.py {i} --tier thorough',
        'evidence_file': f'/verif/evidence/{i}.json',
        'replay_cmd_template': 'python3 replay.py {path}',
        'engine': 'll2c+cbmc',
        'level_claimed': {'category': 'model_checking', 'text': mm.get('text', ''), 'design_ref': mm.get('design_ref', 'DESIGN.md section 2 ' + i)},
        'level_note': mm.get('note', ''),
        'technique': mm.get('technique', 'bounded symbolic model checking (cbmc SAT back end) of the C translation of the clang LLVM IR of the real headers; native replay of counterexamples'),
    })
man = {
    'version': 1,
    'setup_cmd': 'python3 run.py setup',
    'hooks': {'guard': 'DATASKETCHES_VERIF', 'enable': 'checks compile the header-only library with -DDATASKETCHES_VERIF (clang++-14 for the encoding, g++ for replay); nothing is built inside /repo',
              'baseline_off_cmd': 'cmake -S /repo -B /repo/_build -G Ninja -DFETCHCONTENT_TRY_FIND_PACKAGE_MODE=ALWAYS -DFETCHCONTENT_UPDATES_DISCONNECTED=ON && cmake --build /repo/_build -j16 && ctest --test-dir /repo/_build -j8 --timeout 900',
              'source_commits': ['e9379e0'], 'add_only': True},
    'engines': [{'name': 'll2c+cbmc', 'path': '/verif/run.py', 'serves_properties': [c['property_id'] for c in checks],
                 'kind_free_text': 'clang++-14 -O1 LLVM IR of the real headers -> own IR-to-C translator (tool/ll2c.cpp, libLLVM-14) -> cbmc 6.11 bounded model checking; counterexamples replayed on the g++/ASan build of the real code'}],
    'checks': checks,
    'not_applicable': na,
    'notes': 'Every verdict is bounded: see evidence coverage.bounds / outside_claim per property and DESIGN.md. exit 2 = inconclusive (never reported as pass).',
}
json.dump(man, open(os.path.join(V, 'MANIFEST.json'), 'w'), indent=1)
print('checks:', [c['property_id'] for c in checks], 'na:', [n['property_id'] for n in na])
