META = {
 'manifest': {'text': 'Bounded symbolic model checking of the guard and clamp logic of binomial_bounds::get_lower_bound / get_upper_bound (shared by Theta and Tuple sketches) over the whole input domain: with the numerical approximation kernels replaced by arbitrary doubles the result still satisfies lower <= estimate <= upper and lower >= retained count, invalid arguments are refused.',
              'note': 'only the clamp/guard layer is decided; the approximation kernels themselves (tables, Gaussian approximation, exact tails), monotone widening, accuracy, bias, coverage and the HLL/CPC estimators are floating-point / statistical statements outside the reach of bit-blasted IEEE arithmetic'},
 'functions_encoded': ['binomial_bounds::get_lower_bound, get_upper_bound, check_theta, check_num_std_devs'],
 'bounds': 'num_samples 0..2^52, theta any double, num_std_devs 0..5',
 'stubs': ['compute_approx_binomial_lower_bound / upper_bound -> arbitrary double (havoc)'], 'assumes': ['theta not NaN and > 0 for the ordering assertions'],
 'outside': ['values of the approximation kernels, interval monotonicity in num_std_devs', 'relative error / bias / coverage (statistical)', 'HLL and CPC estimators and confidence tables'],
}
def queries(tier):
    return [Q(f'binomial_bounds_clamp_n{nb}', 'bounds', 'c06_bounds.c', defs={'NBITS': nb}, unwind=8, timeout=(400 if tier == 'quick' else 1800), native_vectors=500,
              c_defs={'VERIF_HAVOC_BB_LB': None, 'VERIF_HAVOC_BB_UB': None}) for nb in ((8, 16) if tier == 'quick' else (8, 16, 32, 52))]
