META = {
 'manifest': {'text': 'Bounded symbolic model checking of the coupon-matrix clauses of the real cpc_sketch at lg_k = 4: after a concrete prefix of (row, column) pairs (sparse flavor, at the promotion boundary, windowed flavor) and one symbolic pair, the coupon count equals the number of distinct pairs, build_bit_matrix reconstructs exactly the oracle matrix and validate() agrees.',
              'note': 'pairs are fed to row_col_update directly (hashing and row/column extraction are not encoded); HIP / kxp estimator updates are skipped by a stub; window moves (>= 54 coupons), unions, compression and the estimators are outside the claim'},
 'functions_encoded': ['cpc_sketch::row_col_update/update_sparse/update_windowed/promote_sparse_to_windowed/build_bit_matrix/validate/get_num_coupons', 'u32_table::maybe_insert/maybe_delete/lookup/rebuild'],
 'bounds': 'lg_k = 4; prefixes of 0, 1, 2, 5 concrete pairs + 1 symbolic pair', 'stubs': ['cpc_sketch::update_hip -> no-op', 'move_window -> assert-unreachable cut'], 'assumes': [],
 'outside': ['hash -> (row, col)', 'sliding flavor / move_window', 'cpc_union', 'compression and serialization', 'ICON / HIP estimates and confidence bounds'],
}
def queries(tier):
    def rc(r, c): return f'{(r << 6) | c}u,'
    prefixes = {'p0': '', 'p1': rc(3, 0), 'p2': rc(3, 0) + rc(7, 5), 'p5': rc(3, 0) + rc(7, 5) + rc(3, 9) + rc(0, 1) + rc(15, 0)}
    qs = []
    for name, pfx in prefixes.items():
        qs.append(Q(f'cpc_{name}_sym1', 'cpc', 'c05_cpc.c', defs={'PREFIX': pfx}, tu_defs={'__OPT': '-O1 -fno-inline-functions -fno-inline -fno-pic'}, unwind=10,
                    unwindset={'^(harness|popc|verif_mem.*|verif_new.*)$': 70}, timeout=(400 if tier == 'quick' else 1500), native_vectors=200,
                    c_defs={'VERIF_NEW_CAPN': 70, 'VERIF_VEC_CAP': 20, 'VERIF_SKIP_CPC_HIP': None, 'VERIF_CUT_CPC_MOVE_WINDOW': None}, slice_formula=True, mem_gb=16))
    return qs
