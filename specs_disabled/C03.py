META = {
 'manifest': {'text': 'Bounded symbolic model checking of the real HLL register arrays (Hll4Array with aux exception map, Hll6Array, Hll8Array) at lg_k = 4, started full-size: after up to 3 symbolic coupons (any slot, any 6-bit value) the logical register of every slot equals the per-slot maximum for all three widths, emptiness and HLL_4 cur_min bookkeeping are consistent, and converting to another width keeps the registers.',
              'note': 'unit level: coupons are fed to the array classes directly (hashing / coupon extraction, list and set mode, promotion and the estimators are not encoded); cur_min shifts need >= 16 updates and are outside the bound'},
 'functions_encoded': ['Hll4Array::couponUpdate/internalHll4Update/getSlot/putSlot, AuxHashMap::mustAdd/mustReplace/mustFindValueFor/newAuxHashMap', 'Hll6Array::couponUpdate/internalHll6Update', 'Hll8Array::couponUpdate/internalHll8Update', 'HllArray::hipAndKxQIncrementalUpdate, isEmpty, const_iterator + get_value', 'Hll4/6/8Array(const HllArray&) conversion constructors'],
 'bounds': 'lg_k = 4 (16 slots), <= 3 symbolic coupons, values 1..63',
 'stubs': [], 'assumes': [], 'outside': ['coupon = f(MurmurHash3) extraction and every update overload', 'LIST / SET modes and promotion', 'shiftToBiggerCurMin (needs all 16 slots raised)', 'estimators and bounds (floating point; C06)', 'lg_k > 4'],
}
def queries(tier):
    qs = []
    for (nc, conv) in [(0, None), (1, None), (2, None), (2, 8)] + ([(3, None), (3, 6), (2, 4)] if tier == 'thorough' else []):
        d = {'NC': nc}
        if conv: d['CONVERT'] = conv
        qs.append(Q(f'hll_arrays_c{nc}' + (f'_conv{conv}' if conv else ''), 'hll_arrays', 'c03_hll_arrays.c', defs=d, unwind=20,
                    unwindset={'^(harness|verif_mem.*|verif_new.*)$': 40}, timeout=(400 if tier == 'quick' else 1800), native_vectors=300, c_defs={'VERIF_NEW_CAPN': 40, 'VERIF_VEC_CAP': 8, 'VERIF_CUT_HLL4_SHIFT': None}, slice_formula=True, mem_gb=(10 if tier == 'quick' else 28)))
    return qs
