META = {
 'manifest': {'text': 'Bounded symbolic model checking of the real hll_union through the public API on two HLL-mode input sketches (one symbolic item each, hash = arbitrary function), lg_max_k 4, input lg_k 4..5, register widths 4/6/8, both orders: the result lg_k is the minimum and every result register is the per-slot maximum over everything offered, folded to the result size (nothing is lost, also when the first input has to be down-sampled).',
              'note': 'inputs are started full-size (HLL mode); LIST/SET-mode inputs, more than two inputs, raw item updates of the union and the estimators are outside the quick claim; estimator accumulator updates are skipped by a stub'},
 'functions_encoded': ['hll_union::update(const hll_sketch&)/get_result/get_lg_config_k, union_impl, copy_or_downsample', 'Hll8Array::mergeHll, HllArray::check_rebuild_kxq_cur_min/isEmpty/copyAs', 'hll_sketch::update -> HllUtil::coupon -> HllArray::couponUpdate'],
 'bounds': 'lg_max_k 4; two inputs, lg_k in {4,5}, types HLL_4/6/8, one symbolic item each',
 'stubs': ['MurmurHash3_x64_128 -> harness model', 'HllArray::hipAndKxQIncrementalUpdate -> no-op'], 'assumes': [], 'outside': ['LIST / SET mode inputs', '>= 3 inputs, interleaved get_result', 'estimates'],
}
def queries(tier):
    qs = []
    shapes = [(4, 5, 4, 2, 2, 0), (4, 5, 4, 2, 2, 1), (4, 4, 4, 2, 0, 0)] + ([(4, 5, 5, 1, 2, 0), (4, 4, 5, 0, 1, 1), (5, 5, 4, 2, 2, 0)] if tier == 'thorough' else [])
    for (lgmax, lg1, lg2, t1, t2, sw) in shapes:
        d = {'LGMAX': lgmax, 'LG1': lg1, 'LG2': lg2, 'T1': t1, 'T2': t2, 'HM_MAX': 4}
        if sw: d['SWAP'] = None
        qs.append(Q(f'union_max{lgmax}_a{lg1}t{t1}_b{lg2}t{t2}' + ('_swap' if sw else ''), 'hll_union', 'c04_union.c', defs=d, tu_defs={'VERIF_STUB_HASH': None, '__OPT': '-O1 -fno-inline-functions -fno-inline -fno-pic'},
                    unwind=36, unwindset={'^(harness|clz64|verif_hash128|verif_mem.*|verif_new.*)$': 70}, timeout=(500 if tier == 'quick' else 2400), native_vectors=200,
                    c_defs={'VERIF_NEW_CAPN': 70, 'VERIF_VEC_CAP': 8, 'VERIF_CUT_HLL4_SHIFT': None, 'VERIF_SKIP_HLL_KXQ': None}, slice_formula=True, mem_gb=(20 if tier == 'quick' else 28)))
    return qs
