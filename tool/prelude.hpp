#include <stdexcept>
#include <memory>
#include <cmath>
#include <vector>
#include <algorithm>
#include <sstream>
#include <string>
#include <iostream>
#include <cstring>
#include <cstdint>
#include <iterator>
#include <functional>
#include <random>
#include <type_traits>
#include <iomanip>
#include <exception>
#include <climits>
#include <limits>
#include <cstdlib>
#include <utility>
#include <thread>
#include <optional>
#include <numeric>
#include <cstdio>
#include <cstddef>
#include <chrono>
#include <bitset>
#include <array>
#include <map>
#include <set>
#include <unordered_map>
#include <cassert>
#include <cfloat>
#include <cinttypes>
#include <initializer_list>
#include <new>
#include <tuple>
#include <typeinfo>
#include <mutex>
#include <atomic>
#include <deque>
#include <list>
#include <queue>
#include <fstream>
#include <ostream>
#include <istream>
#include <ios>
/* ---- verification prelude (force-included before every wrapper TU) ---- */
#ifdef VERIF_SYMBOLIC
/* exception messages are not evaluated; unwinding itself stays real */
namespace verif { struct exc {}; [[noreturn]] inline void raise() { throw exc(); } }
#define throw ::verif::raise(), (void) sizeof
#endif
#define private public
#define protected public
#ifdef VERIF_STUB_HASH
/* redirect the *uses* of the hash functions in sketch headers to a harness-supplied function */
#include "MurmurHash3.h"
#include "xxhash64.h"
extern "C" void verif_hash128(const void* key, uint64_t len, uint64_t seed, uint64_t* h1, uint64_t* h2);
extern "C" uint64_t verif_hash64(const void* key, uint64_t len, uint64_t seed);
static inline void verif_murmur_stub(const void* key, size_t len, uint64_t seed, HashState& out) { verif_hash128(key, len, seed, &out.h1, &out.h2); }
namespace datasketches { struct verif_xxhash_stub { static uint64_t hash(const void* key, uint64_t len, uint64_t seed) { return verif_hash64(key, len, seed); } }; }
#define MurmurHash3_x64_128 verif_murmur_stub
#define XXHash64 verif_xxhash_stub
#endif
#define WRAP extern "C" __attribute__((noinline))
