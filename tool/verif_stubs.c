#include <stdint.h>
struct S_class_std__ios_base__Init; struct S_class_std__random_device; struct S_class_std____cxx11__basic_string;
void _ZNSt8ios_base4InitC1Ev(struct S_class_std__ios_base__Init* p){}
void _ZNSt8ios_base4InitD1Ev(struct S_class_std__ios_base__Init* p){}
uint32_t __cxa_atexit(void (*f)(uint8_t*), uint8_t* a, uint8_t* d){ return 0; }
void _ZNSt13random_device7_M_initERKNSt7__cxx1112basic_stringIcSt11char_traitsIcESaIcEEE(struct S_class_std__random_device* r, struct S_class_std____cxx11__basic_string* s){}
void _ZNSt13random_device7_M_finiEv(struct S_class_std__random_device* r){}
#ifdef VERIF_CBMC
uint8_t __dso_handle;
#endif
uint8_t* _ZTVN10__cxxabiv117__class_type_infoE[8];
