#ifndef VERIF_RT_H
#define VERIF_RT_H
#include <stdint.h>
#include <stddef.h>
#include <string.h>
#include <stdlib.h>
#include <math.h>
#include <assert.h>
/* exception model */
extern int verif_exc; extern void* verif_exc_obj; extern uint32_t verif_exc_sel;
void verif_unreachable(void);
static inline double verif_f64_from_bits(uint64_t b){ double d; memcpy(&d,&b,8); return d; }
static inline uint64_t verif_f64_to_bits(double d){ uint64_t b; memcpy(&b,&d,8); return b; }
static inline float verif_f32_from_bits(uint32_t b){ float d; memcpy(&d,&b,4); return d; }
static inline uint32_t verif_f32_to_bits(float d){ uint32_t b; memcpy(&b,&d,4); return b; }
extern long verif_live_blocks;
uint8_t* _Znwm(uint64_t n);
typedef void* verif_ptr_t;
#ifndef VERIF_NEW_CAPN
#define VERIF_NEW_CAPN 40
#endif
#ifdef VERIF_CBMC
/* typed operator new: when the element count is not a symex constant, case-split over 0..VERIF_NEW_CAPN elements so that every
 * heap object has a CONCRETE size (symbolic-size objects make the array encoding explode); larger requests fail an assertion. */
#define VERIF_DEF_NEWC(T, tag) \
static uint8_t* verif_newc_##tag(uint64_t size) { uint8_t* p = (uint8_t*)malloc(sizeof(T) * (size / sizeof(T) ? size / sizeof(T) : 1)); __CPROVER_assume(p != 0); verif_live_blocks++; return p; }
#ifdef VERIF_NEW_MAX
/* cheaper, less exact mode (selected per query): a request whose size is not a constant of the IR gets ONE block of VERIF_NEW_CAPN
 * elements (a larger request fails an assertion); accesses between the requested size and the cap are then not flagged by cbmc */
#define VERIF_DEF_NEW(T, tag) VERIF_DEF_NEWC(T, tag) \
static uint8_t* verif_new_##tag(uint64_t size) { uint64_t n = size / sizeof(T); \
  __CPROVER_assert(n <= VERIF_NEW_CAPN, "ENCODING-BOUND: allocation larger than VERIF_NEW_CAPN elements"); __CPROVER_assume(n <= VERIF_NEW_CAPN); \
  uint8_t* p = (uint8_t*)malloc(sizeof(T) * VERIF_NEW_CAPN); __CPROVER_assume(p != 0); verif_live_blocks++; return p; }
#else
#define VERIF_DEF_NEW(T, tag) VERIF_DEF_NEWC(T, tag) \
static uint8_t* verif_new_##tag(uint64_t size) { uint64_t n = size / sizeof(T); uint8_t* p = 0; int done = 0; \
  for (uint64_t k = 0; k <= VERIF_NEW_CAPN; k++) if (!done && n == k) { p = (uint8_t*)malloc(sizeof(T) * (k ? k : 1)); done = 1; } \
  __CPROVER_assert(done, "ENCODING-BOUND: allocation larger than VERIF_NEW_CAPN elements"); __CPROVER_assume(done); \
  __CPROVER_assume(p != 0); verif_live_blocks++; return p; }
#endif
#else
#define VERIF_DEF_NEW(T, tag) static uint8_t* verif_new_##tag(uint64_t size) { return _Znwm(size); } static uint8_t* verif_newc_##tag(uint64_t size) { return _Znwm(size); }
#endif

#define VERIF_DEF_MEM(T, tag) \
static void verif_memcpy_##tag(void* d, const void* s, uint64_t n) { T* _d=(T*)(d); const T* _s=(const T*)(s); uint64_t _k=n/sizeof(T); \
  for (uint64_t _i=0; _i<_k; _i++) _d[_i]=_s[_i]; \
  for (uint64_t _j=_k*sizeof(T); _j<n; _j++) ((uint8_t*)_d)[_j]=((const uint8_t*)_s)[_j]; } \
static void verif_memmove_##tag(void* d, const void* s, uint64_t n) { T* _d=(T*)(d); const T* _s=(const T*)(s); uint64_t _k=n/sizeof(T); \
  if ((uintptr_t)_d <= (uintptr_t)_s) { for (uint64_t _i=0; _i<_k; _i++) _d[_i]=_s[_i]; for (uint64_t _j=_k*sizeof(T); _j<n; _j++) ((uint8_t*)_d)[_j]=((const uint8_t*)_s)[_j]; } \
  else { for (uint64_t _j=n; _j>_k*sizeof(T); _j--) ((uint8_t*)_d)[_j-1]=((const uint8_t*)_s)[_j-1]; for (uint64_t _i=_k; _i>0; _i--) _d[_i-1]=_s[_i-1]; } } \
static void verif_memset_##tag(void* d, uint8_t c, uint64_t n) { T* _d=(T*)(d); uint64_t _k=n/sizeof(T); T _v; memset(&_v,c,sizeof(T)); \
  for (uint64_t _i=0; _i<_k; _i++) _d[_i]=_v; \
  for (uint64_t _j=_k*sizeof(T); _j<n; _j++) ((uint8_t*)_d)[_j]=c; }
/* 64-bit multiplication: exact by default; under -DVERIF_UF_MUL (cbmc build only) an uninterpreted function, which is a sound
 * abstraction for proving that two computations applying the same products in the same order are equal (hash differentials) */
#if defined(VERIF_CBMC) && defined(VERIF_UF_MUL)
uint64_t __CPROVER_uninterpreted_mul64(uint64_t, uint64_t);
#define VERIF_MUL64(a, b) __CPROVER_uninterpreted_mul64((uint64_t)(a), (uint64_t)(b))
#else
#define VERIF_MUL64(a, b) ((uint64_t)((uint64_t)(a) * (uint64_t)(b)))
#endif
/* libc functions referenced from the IR (renamed by ll2c to avoid prototype clashes) */
static inline uint64_t verif_libc_strlen(uint8_t* s){ return strlen((const char*)s); }
static inline uint32_t verif_libc_memcmp(uint8_t* a, uint8_t* b, uint64_t n){ for (uint64_t i = 0; i < n; i++) if (a[i] != b[i]) return a[i] < b[i] ? (uint32_t)-1 : 1u; return 0; }
static inline uint32_t verif_libc_bcmp(uint8_t* a, uint8_t* b, uint64_t n){ return verif_libc_memcmp(a, b, n); }
static inline uint8_t* verif_libc_memchr(uint8_t* a, uint32_t c, uint64_t n){ for (uint64_t i = 0; i < n; i++) if (a[i] == (uint8_t)c) return a + i; return 0; }
static inline uint32_t verif_libc_strcmp(uint8_t* a, uint8_t* b){ return (uint32_t)strcmp((const char*)a, (const char*)b); }
static inline void verif_libc_abort(void){ abort(); }
static inline double verif_libc_nan(uint8_t* tag){ return verif_f64_from_bits(0x7ff8000000000000ULL); }
static inline float verif_libc_nanf(uint8_t* tag){ return verif_f32_from_bits(0x7fc00000u); }
static inline void verif_libc_free(uint8_t* p){ free(p); }
/* intrinsics */
static inline void verif_llvm_trap(void){ verif_unreachable(); }
static inline double verif_llvm_fmuladd_f64(double a, double b, double c){ return a * b + c; }
static inline float verif_llvm_fmuladd_f32(float a, float b, float c){ return a * b + c; }
static inline double verif_llvm_round_f64(double x){ return round(x); }
static inline double verif_llvm_trunc_f64(double x){ return trunc(x); }
static inline double verif_llvm_rint_f64(double x){ return rint(x); }
static inline double verif_llvm_nearbyint_f64(double x){ return nearbyint(x); }
static inline double verif_llvm_copysign_f64(double x, double y){ return copysign(x, y); }
static inline double verif_llvm_minnum_f64(double x, double y){ return fmin(x, y); }
static inline double verif_llvm_maxnum_f64(double x, double y){ return fmax(x, y); }
static inline double verif_llvm_pow_f64(double x, double y){ return pow(x, y); }
static inline double verif_llvm_exp_f64(double x){ return exp(x); }
static inline double verif_llvm_exp2_f64(double x){ return exp2(x); }
static inline double verif_llvm_log_f64(double x){ return log(x); }
static inline double verif_llvm_log2_f64(double x){ return log2(x); }
static inline double verif_llvm_log10_f64(double x){ return log10(x); }
static inline float verif_llvm_ceil_f32(float x){ return ceilf(x); }
static inline float verif_llvm_round_f32(float x){ return roundf(x); }
static inline float verif_llvm_trunc_f32(float x){ return truncf(x); }
static inline float verif_llvm_rint_f32(float x){ return rintf(x); }
static inline float verif_llvm_sqrt_f32(float x){ return sqrtf(x); }
static inline uint64_t verif_llvm_abs_i64(uint64_t x, uint8_t p){ return (int64_t)x < 0 ? (uint64_t)0 - x : x; }
static inline uint32_t verif_llvm_abs_i32(uint32_t x, uint8_t p){ return (int32_t)x < 0 ? (uint32_t)0 - x : x; }
static inline uint64_t verif_llvm_usub_sat_i64(uint64_t a, uint64_t b){ return a > b ? a - b : 0; }
static inline uint32_t verif_llvm_usub_sat_i32(uint32_t a, uint32_t b){ return a > b ? a - b : 0; }
static inline uint64_t verif_llvm_uadd_sat_i64(uint64_t a, uint64_t b){ uint64_t r = a + b; return r < a ? UINT64_MAX : r; }
static inline uint16_t verif_llvm_bswap_i16(uint16_t x){ return (uint16_t)((x << 8) | (x >> 8)); }
static inline uint16_t verif_llvm_umin_i16(uint16_t a, uint16_t b){ return a<b?a:b; }
static inline uint16_t verif_llvm_umax_i16(uint16_t a, uint16_t b){ return a>b?a:b; }
static inline uint8_t verif_llvm_smin_i8(uint8_t a, uint8_t b){ return (int8_t)a<(int8_t)b?a:b; }
static inline uint8_t verif_llvm_smax_i8(uint8_t a, uint8_t b){ return (int8_t)a>(int8_t)b?a:b; }
static inline uint16_t verif_llvm_smin_i16(uint16_t a, uint16_t b){ return (int16_t)a<(int16_t)b?a:b; }
static inline uint16_t verif_llvm_smax_i16(uint16_t a, uint16_t b){ return (int16_t)a>(int16_t)b?a:b; }
static inline uint16_t verif_llvm_ctpop_i16(uint16_t x){ return (uint16_t)__builtin_popcount(x); }
static inline uint8_t verif_llvm_ctpop_i8(uint8_t x){ return (uint8_t)__builtin_popcount(x); }
static inline uint16_t verif_llvm_ctlz_i16(uint16_t x, uint8_t z){ if(x==0) return 16; return (uint16_t)(__builtin_clz(x) - 16); }
static inline uint8_t verif_llvm_ctlz_i8(uint8_t x, uint8_t z){ if(x==0) return 8; return (uint8_t)(__builtin_clz(x) - 24); }
static inline uint8_t verif_llvm_cttz_i8(uint8_t x, uint8_t z){ if(x==0) return 8; return (uint8_t)__builtin_ctz(x); }
static inline uint16_t verif_llvm_cttz_i16(uint16_t x, uint8_t z){ if(x==0) return 16; return (uint16_t)__builtin_ctz(x); }
static inline uint32_t verif_llvm_fshr_i32(uint32_t a, uint32_t b, uint32_t c){ c&=31; return c? (a<<(32-c))|(b>>c) : b; }
static inline double verif_llvm_floor_f64(double x){ return floor(x); }
static inline double verif_llvm_ceil_f64(double x){ return ceil(x); }
static inline double verif_llvm_fabs_f64(double x){ return fabs(x); }
static inline double verif_llvm_sqrt_f64(double x){ return sqrt(x); }
static inline float verif_llvm_floor_f32(float x){ return floorf(x); }
static inline float verif_llvm_fabs_f32(float x){ return fabsf(x); }
static inline void verif_llvm_memcpy_p0i8_p0i8_i64(uint8_t* d, uint8_t* s, uint64_t n, uint8_t v){ memcpy(d,s,n); }
static inline void verif_llvm_memmove_p0i8_p0i8_i64(uint8_t* d, uint8_t* s, uint64_t n, uint8_t v){ memmove(d,s,n); }
static inline void verif_llvm_memset_p0i8_i64(uint8_t* d, uint8_t c, uint64_t n, uint8_t v){ memset(d,c,n); }
static inline uint64_t verif_llvm_ctlz_i64(uint64_t x, uint8_t z){ if(x==0) return 64; return (uint64_t)__builtin_clzll(x); }
static inline uint32_t verif_llvm_ctlz_i32(uint32_t x, uint8_t z){ if(x==0) return 32; return (uint32_t)__builtin_clz(x); }
static inline uint64_t verif_llvm_cttz_i64(uint64_t x, uint8_t z){ if(x==0) return 64; return (uint64_t)__builtin_ctzll(x); }
static inline uint32_t verif_llvm_cttz_i32(uint32_t x, uint8_t z){ if(x==0) return 32; return (uint32_t)__builtin_ctz(x); }
static inline uint64_t verif_llvm_ctpop_i64(uint64_t x){ return (uint64_t)__builtin_popcountll(x); }
static inline uint32_t verif_llvm_ctpop_i32(uint32_t x){ return (uint32_t)__builtin_popcount(x); }
static inline uint64_t verif_llvm_umax_i64(uint64_t a, uint64_t b){ return a>b?a:b; }
static inline uint64_t verif_llvm_umin_i64(uint64_t a, uint64_t b){ return a<b?a:b; }
static inline uint32_t verif_llvm_umax_i32(uint32_t a, uint32_t b){ return a>b?a:b; }
static inline uint32_t verif_llvm_umin_i32(uint32_t a, uint32_t b){ return a<b?a:b; }
static inline uint8_t verif_llvm_umax_i8(uint8_t a, uint8_t b){ return a>b?a:b; }
static inline uint8_t verif_llvm_umin_i8(uint8_t a, uint8_t b){ return a<b?a:b; }
static inline uint64_t verif_llvm_smax_i64(uint64_t a, uint64_t b){ return (int64_t)a>(int64_t)b?a:b; }
static inline uint64_t verif_llvm_smin_i64(uint64_t a, uint64_t b){ return (int64_t)a<(int64_t)b?a:b; }
static inline uint32_t verif_llvm_smax_i32(uint32_t a, uint32_t b){ return (int32_t)a>(int32_t)b?a:b; }
static inline uint32_t verif_llvm_smin_i32(uint32_t a, uint32_t b){ return (int32_t)a<(int32_t)b?a:b; }
static inline uint64_t verif_llvm_bswap_i64(uint64_t x){ return __builtin_bswap64(x); }
static inline uint32_t verif_llvm_bswap_i32(uint32_t x){ return __builtin_bswap32(x); }
static inline uint64_t verif_llvm_fshl_i64(uint64_t a, uint64_t b, uint64_t c){ c&=63; return c? (a<<c)|(b>>(64-c)) : a; }
static inline uint32_t verif_llvm_fshl_i32(uint32_t a, uint32_t b, uint32_t c){ c&=31; return c? (a<<c)|(b>>(32-c)) : a; }
static inline uint64_t verif_llvm_fshr_i64(uint64_t a, uint64_t b, uint64_t c){ c&=63; return c? (a<<(64-c))|(b>>c) : b; }
static inline uint32_t verif_llvm_eh_typeid_for(uint8_t* p){ return 2; }
#endif
