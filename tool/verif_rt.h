#ifndef VERIF_RT_H
#define VERIF_RT_H
#include <stdint.h>
#include <stddef.h>
#include <string.h>
#include <stdlib.h>
#include <math.h>
#include <assert.h>
/* exception model */
extern int verif_exc; extern void* verif_exc_obj; extern uint32_t verif_exc_sel;
void verif_unreachable(void);
static inline double verif_f64_from_bits(uint64_t b){ double d; memcpy(&d,&b,8); return d; }
static inline uint64_t verif_f64_to_bits(double d){ uint64_t b; memcpy(&b,&d,8); return b; }
static inline float verif_f32_from_bits(uint32_t b){ float d; memcpy(&d,&b,4); return d; }
static inline uint32_t verif_f32_to_bits(float d){ uint32_t b; memcpy(&b,&d,4); return b; }
extern long verif_live_blocks;
uint8_t* _Znwm(uint64_t n);
#ifdef VERIF_CBMC
static inline uint8_t* verif_new_post(uint8_t* p){ __CPROVER_assume(p != 0); verif_live_blocks++; return p; }
#define VERIF_NEW(T, size) verif_new_post((uint8_t*)malloc(sizeof(T) * ((size) / sizeof(T))))
#else
#define VERIF_NEW(T, size) _Znwm(size)
#endif
typedef void* verif_ptr_t;
#define VERIF_DEF_MEM(T, tag) \
static void verif_memcpy_##tag(void* d, const void* s, uint64_t n) { T* _d=(T*)(d); const T* _s=(const T*)(s); uint64_t _k=n/sizeof(T); \
  for (uint64_t _i=0; _i<_k; _i++) _d[_i]=_s[_i]; \
  for (uint64_t _j=_k*sizeof(T); _j<n; _j++) ((uint8_t*)_d)[_j]=((const uint8_t*)_s)[_j]; } \
static void verif_memmove_##tag(void* d, const void* s, uint64_t n) { T* _d=(T*)(d); const T* _s=(const T*)(s); uint64_t _k=n/sizeof(T); \
  if ((uintptr_t)_d <= (uintptr_t)_s) { for (uint64_t _i=0; _i<_k; _i++) _d[_i]=_s[_i]; for (uint64_t _j=_k*sizeof(T); _j<n; _j++) ((uint8_t*)_d)[_j]=((const uint8_t*)_s)[_j]; } \
  else { for (uint64_t _j=n; _j>_k*sizeof(T); _j--) ((uint8_t*)_d)[_j-1]=((const uint8_t*)_s)[_j-1]; for (uint64_t _i=_k; _i>0; _i--) _d[_i-1]=_s[_i-1]; } } \
static void verif_memset_##tag(void* d, uint8_t c, uint64_t n) { T* _d=(T*)(d); uint64_t _k=n/sizeof(T); T _v; memset(&_v,c,sizeof(T)); \
  for (uint64_t _i=0; _i<_k; _i++) _d[_i]=_v; \
  for (uint64_t _j=_k*sizeof(T); _j<n; _j++) ((uint8_t*)_d)[_j]=c; }
/* intrinsics */
static inline double verif_llvm_floor_f64(double x){ return floor(x); }
static inline double verif_llvm_ceil_f64(double x){ return ceil(x); }
static inline double verif_llvm_fabs_f64(double x){ return fabs(x); }
static inline double verif_llvm_sqrt_f64(double x){ return sqrt(x); }
static inline float verif_llvm_floor_f32(float x){ return floorf(x); }
static inline float verif_llvm_fabs_f32(float x){ return fabsf(x); }
static inline void verif_llvm_memcpy_p0i8_p0i8_i64(uint8_t* d, uint8_t* s, uint64_t n, uint8_t v){ memcpy(d,s,n); }
static inline void verif_llvm_memmove_p0i8_p0i8_i64(uint8_t* d, uint8_t* s, uint64_t n, uint8_t v){ memmove(d,s,n); }
static inline void verif_llvm_memset_p0i8_i64(uint8_t* d, uint8_t c, uint64_t n, uint8_t v){ memset(d,c,n); }
static inline uint64_t verif_llvm_ctlz_i64(uint64_t x, uint8_t z){ if(x==0) return 64; return (uint64_t)__builtin_clzll(x); }
static inline uint32_t verif_llvm_ctlz_i32(uint32_t x, uint8_t z){ if(x==0) return 32; return (uint32_t)__builtin_clz(x); }
static inline uint64_t verif_llvm_cttz_i64(uint64_t x, uint8_t z){ if(x==0) return 64; return (uint64_t)__builtin_ctzll(x); }
static inline uint32_t verif_llvm_cttz_i32(uint32_t x, uint8_t z){ if(x==0) return 32; return (uint32_t)__builtin_ctz(x); }
static inline uint64_t verif_llvm_ctpop_i64(uint64_t x){ return (uint64_t)__builtin_popcountll(x); }
static inline uint32_t verif_llvm_ctpop_i32(uint32_t x){ return (uint32_t)__builtin_popcount(x); }
static inline uint64_t verif_llvm_umax_i64(uint64_t a, uint64_t b){ return a>b?a:b; }
static inline uint64_t verif_llvm_umin_i64(uint64_t a, uint64_t b){ return a<b?a:b; }
static inline uint32_t verif_llvm_umax_i32(uint32_t a, uint32_t b){ return a>b?a:b; }
static inline uint32_t verif_llvm_umin_i32(uint32_t a, uint32_t b){ return a<b?a:b; }
static inline uint8_t verif_llvm_umax_i8(uint8_t a, uint8_t b){ return a>b?a:b; }
static inline uint8_t verif_llvm_umin_i8(uint8_t a, uint8_t b){ return a<b?a:b; }
static inline uint64_t verif_llvm_smax_i64(uint64_t a, uint64_t b){ return (int64_t)a>(int64_t)b?a:b; }
static inline uint64_t verif_llvm_smin_i64(uint64_t a, uint64_t b){ return (int64_t)a<(int64_t)b?a:b; }
static inline uint32_t verif_llvm_smax_i32(uint32_t a, uint32_t b){ return (int32_t)a>(int32_t)b?a:b; }
static inline uint32_t verif_llvm_smin_i32(uint32_t a, uint32_t b){ return (int32_t)a<(int32_t)b?a:b; }
static inline uint64_t verif_llvm_bswap_i64(uint64_t x){ return __builtin_bswap64(x); }
static inline uint32_t verif_llvm_bswap_i32(uint32_t x){ return __builtin_bswap32(x); }
static inline uint64_t verif_llvm_fshl_i64(uint64_t a, uint64_t b, uint64_t c){ c&=63; return c? (a<<c)|(b>>(64-c)) : a; }
static inline uint32_t verif_llvm_fshl_i32(uint32_t a, uint32_t b, uint32_t c){ c&=31; return c? (a<<c)|(b>>(32-c)) : a; }
static inline uint64_t verif_llvm_fshr_i64(uint64_t a, uint64_t b, uint64_t c){ c&=63; return c? (a<<(64-c))|(b>>c) : b; }
static inline uint32_t verif_llvm_eh_typeid_for(uint8_t* p){ return 2; }
#endif
