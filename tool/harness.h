/* harness.h — one harness source, three builds:
 *   __CPROVER__        : symbolic run under cbmc (nondet inputs, assume, assert)
 *   VERIF_NATIVE       : the same harness compiled by gcc and linked either with the translated C
 *                        (translator validation) or with the g++ build of the real wrappers (replay).
 *                        Inputs come from a replay file (values the solver chose) or a seeded PRNG.
 * A harness defines `void harness(void)`; inputs are drawn with ND_*(), preconditions with ASSUME(),
 * the property with ASSERT(cond, "text"), observable results with OBSERVE(x) (compared between the
 * translated and the real build), and ends with WITNESS() (must be reachable: non-vacuity).
 */
#ifndef VERIF_HARNESS_H
#define VERIF_HARNESS_H
#include <stdint.h>
#include <stddef.h>
#include <stdlib.h>
#include <string.h>

#define VERIF_ND_MAX 512
extern uint64_t verif_nd_log[VERIF_ND_MAX];
extern unsigned verif_nd_n;

#ifdef VERIF_CBMC
uint64_t nondet_u64(void);
static inline uint64_t verif_nd(uint64_t v) { verif_nd_log[verif_nd_n] = v; verif_nd_n++; return v; }
#define ND_U64() verif_nd(nondet_u64())
#define ND_U32() ((uint32_t)verif_nd(nondet_u64() & 0xffffffffu))
#define ND_U16() ((uint16_t)verif_nd(nondet_u64() & 0xffffu))
#define ND_U8()  ((uint8_t)verif_nd(nondet_u64() & 0xffu))
#define ND_BOOL() ((int)verif_nd(nondet_u64() & 1u))
static inline uint64_t verif_nd_range(uint64_t lo, uint64_t hi) { uint64_t v = nondet_u64(); __CPROVER_assume(v >= lo && v <= hi); return verif_nd(v); }
#define ND_RANGE(lo, hi) verif_nd_range((lo), (hi))
#define ASSUME(c) __CPROVER_assume(c)
#define ASSERT(c, msg) __CPROVER_assert((c), "PROP: " msg)
#ifdef VERIF_NO_WITNESS
#define WITNESS() ((void)0)
#else
#define WITNESS() __CPROVER_assert(0, "WITNESS: end of harness reachable")
#endif
#define OBSERVE(x) ((void)0)
#define VERIF_IS_CBMC 1
#define VERIF_RANDOM_MODE() 0
#else
#include <stdio.h>
#include <setjmp.h>
extern jmp_buf verif_jmp;
extern int verif_failed;
extern uint64_t verif_obs;
extern int verif_verbose;
uint64_t verif_native_draw(uint64_t lo, uint64_t hi, int ranged);
#define ND_U64() verif_native_draw(0, UINT64_MAX, 0)
#define ND_U32() ((uint32_t)verif_native_draw(0, 0xffffffffu, 0))
#define ND_U16() ((uint16_t)verif_native_draw(0, 0xffffu, 0))
#define ND_U8()  ((uint8_t)verif_native_draw(0, 0xffu, 0))
#define ND_BOOL() ((int)verif_native_draw(0, 1, 0))
#define ND_RANGE(lo, hi) verif_native_draw((lo), (hi), 1)
#define ASSUME(c) do { if (!(c)) longjmp(verif_jmp, 1); } while (0)
#define ASSERT(c, msg) do { if (!(c)) { verif_failed++; verif_obs = verif_obs * 1099511628211ULL + 0xbad; if (verif_verbose) printf("ASSERT-FAIL: %s (line %d)\n", msg, __LINE__); } } while (0)
#define WITNESS() ((void)0)
#define OBSERVE(x) do { verif_obs = (verif_obs ^ (uint64_t)(x)) * 1099511628211ULL; if (verif_verbose) printf("OBS %s = %llu\n", #x, (unsigned long long)(uint64_t)(x)); } while (0)
#define VERIF_IS_CBMC 0
extern int verif_random_mode;
/* true only in native pseudo-random validation runs: harnesses may use it to steer random inputs into the assumed region */
#define VERIF_RANDOM_MODE() verif_random_mode
#endif

static inline double verif_bits_to_double(uint64_t b) { double d; memcpy(&d, &b, 8); return d; }
static inline uint64_t verif_double_to_bits(double d) { uint64_t b; memcpy(&b, &d, 8); return b; }
static inline float verif_bits_to_float(uint32_t b) { float d; memcpy(&d, &b, 4); return d; }
static inline uint32_t verif_float_to_bits(float d) { uint32_t b; memcpy(&b, &d, 4); return b; }

void harness(void);
#endif
