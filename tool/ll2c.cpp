// ll2c: LLVM-14 IR -> C translator (prototype) for CBMC consumption.
// Typed translation: LLVM struct types become C structs, arrays become wrapped structs,
// SSA values become C locals, phis become edge copies, invoke/landingpad use a global
// exception flag.
#include "llvm/IR/LLVMContext.h"
#include "llvm/IR/Module.h"
#include "llvm/IR/Constants.h"
#include "llvm/IR/Instructions.h"
#include "llvm/IR/IntrinsicInst.h"
#include "llvm/IR/DataLayout.h"
#include "llvm/IR/GetElementPtrTypeIterator.h"
#include "llvm/IR/Operator.h"
#include "llvm/IRReader/IRReader.h"
#include "llvm/Support/SourceMgr.h"
#include "llvm/Support/raw_ostream.h"
#include <map>
#include <set>
#include <string>
#include <vector>
#include <sstream>
#include <functional>
#include <cstdio>
#include <cstdlib>
using namespace llvm;

static std::map<Type*, std::string> tyname;       // struct/array -> C struct tag
static std::vector<Type*> tyorder;                 // definition order
static std::map<const Value*, std::string> gname;  // globals & functions
static std::set<std::string> used_names;
static const DataLayout* DL;
static int n_fail = 0;
static std::set<const Function*> libc_renamed;
static std::vector<std::pair<std::string, std::string>> cuts; // (substring of mangled name, macro suffix)
static std::map<std::string, std::string> new_types; // tag -> C element type of typed operator new sites
static std::map<std::string, std::string> mem_types; // tag -> C element type used by mem* helpers

static void fail(const std::string& msg) { errs() << "ll2c: UNSUPPORTED: " << msg << "\n"; ++n_fail; }

static std::string sanitize(StringRef s) {
  std::string r;
  for (char c : s) r += (isalnum((unsigned char)c) || c == '_') ? c : '_';
  if (r.empty() || isdigit((unsigned char)r[0])) r = "_" + r;
  return r;
}
static std::string uniq(std::string base) {
  std::string r = base; int i = 0;
  while (used_names.count(r)) r = base + "_" + std::to_string(++i);
  used_names.insert(r); return r;
}

static std::string ctype(Type* t);
static unsigned cbits(unsigned w) { return w <= 8 ? 8 : w <= 16 ? 16 : w <= 32 ? 32 : w <= 64 ? 64 : 128; }
static std::string utype(unsigned w) { unsigned b = cbits(w); return b == 128 ? "unsigned __int128" : "uint" + std::to_string(b) + "_t"; }
static std::string stype(unsigned w) { unsigned b = cbits(w); return b == 128 ? "__int128" : "int" + std::to_string(b) + "_t"; }

static void visit_type(Type* t, std::set<Type*>& seen) {
  if (seen.count(t)) return;
  seen.insert(t);
  if (auto* st = dyn_cast<StructType>(t)) {
    if (!tyname.count(t)) tyname[t] = uniq("S_" + (st->hasName() ? sanitize(st->getName()) : std::string("lit")));
    if (!st->isOpaque()) for (Type* e : st->elements()) if (!e->isPointerTy()) visit_type(e, seen);
    tyorder.push_back(t);
    if (!st->isOpaque()) for (Type* e : st->elements()) if (e->isPointerTy()) visit_type(e, seen);
  } else if (auto* at = dyn_cast<ArrayType>(t)) {
    if (!tyname.count(t)) tyname[t] = uniq("A_" + std::to_string(at->getNumElements()));
    if (!at->getElementType()->isPointerTy()) visit_type(at->getElementType(), seen);
    tyorder.push_back(t);
    if (at->getElementType()->isPointerTy()) visit_type(at->getElementType(), seen);
  } else if (auto* pt = dyn_cast<PointerType>(t)) {
    // make sure pointee struct gets a name (forward declared) before anything uses it
    Type* e = pt->getPointerElementType();
    if (auto* st = dyn_cast<StructType>(e)) { if (!tyname.count(e)) tyname[e] = uniq("S_" + (st->hasName() ? sanitize(st->getName()) : std::string("lit"))); }
    else if (auto* at = dyn_cast<ArrayType>(e)) { if (!tyname.count(e)) tyname[e] = uniq("A_" + std::to_string(at->getNumElements())); }
    visit_type(e, seen);
  } else if (auto* ft = dyn_cast<FunctionType>(t)) {
    visit_type(ft->getReturnType(), seen);
    for (Type* p : ft->params()) visit_type(p, seen);
  } else if (t->isVectorTy()) {
    fail("vector type");
  }
}

// C declarator for a value of type t named `name`
static std::string cdecl(Type* t, const std::string& name) {
  if (auto* pt = dyn_cast<PointerType>(t)) {
    Type* e = pt->getPointerElementType();
    if (auto* ft = dyn_cast<FunctionType>(e)) {
      std::string ps;
      for (unsigned i = 0; i < ft->getNumParams(); ++i) { if (i) ps += ", "; ps += cdecl(ft->getParamType(i), ""); }
      if (ft->isVarArg()) ps += ps.empty() ? "" : ", ...";
      if (ps.empty() && !ft->isVarArg()) ps = "void";
      return cdecl(ft->getReturnType(), "(*" + name + ")(" + ps + ")");
    }
    return cdecl(e, "*" + name);
  }
  return ctype(t) + (name.empty() ? "" : " " + name);
}

static std::string ctype(Type* t) {
  if (t->isVoidTy()) return "void";
  if (t->isIntegerTy()) return utype(t->getIntegerBitWidth());
  if (t->isFloatTy()) return "float";
  if (t->isDoubleTy()) return "double";
  if (t->isX86_FP80Ty()) return "long double";
  if (t->isStructTy() || t->isArrayTy()) { if (!tyname.count(t)) { fail("unnamed aggregate type"); return "void"; } return "struct " + tyname[t]; }
  if (t->isPointerTy()) return cdecl(t, "");
  if (t->isFunctionTy()) { fail("bare function type"); return "void"; }
  std::string s; raw_string_ostream os(s); t->print(os); fail("type " + os.str()); return "void";
}

struct FnCtx {
  Function* F;
  std::map<const Value*, std::string> names;
  std::map<const BasicBlock*, std::string> bbn;
  int tmp = 0;
};

static std::string cexpr(const Value* v, FnCtx* cx);

static std::string zero_of(Type* t) {
  if (t->isStructTy() || t->isArrayTy()) return "((" + ctype(t) + "){0})";
  if (t->isPointerTy()) return "((" + ctype(t) + ")0)";
  if (t->isVoidTy()) return "";
  return "((" + ctype(t) + ")0)";
}

static std::string int_const(const APInt& a) {
  unsigned w = a.getBitWidth();
  if (w <= 64) return "((" + utype(w) + ")UINT64_C(" + std::to_string(a.getZExtValue()) + "))";
  uint64_t lo = a.extractBitsAsZExtValue(64, 0), hi = a.extractBitsAsZExtValue(w - 64 > 64 ? 64 : w - 64, 64);
  return "((((unsigned __int128)UINT64_C(" + std::to_string(hi) + "))<<64)|UINT64_C(" + std::to_string(lo) + "))";
}

static std::string fp_const(const ConstantFP* c) {
  const APFloat& f = c->getValueAPF();
  bool isf = c->getType()->isFloatTy();
  if (f.isNaN()) {
    uint64_t bits = f.bitcastToAPInt().getZExtValue();
    return isf ? "verif_f32_from_bits(UINT32_C(" + std::to_string((uint32_t)bits) + "))" : "verif_f64_from_bits(UINT64_C(" + std::to_string(bits) + "))";
  }
  if (f.isInfinity()) return std::string(f.isNegative() ? "(-" : "(") + (isf ? "(float)" : "") + "(1.0/0.0))";
  char buf[64];
  if (isf) { snprintf(buf, sizeof buf, "%af", (double)f.convertToFloat()); }
  else { snprintf(buf, sizeof buf, "%a", f.convertToDouble()); }
  return std::string("(") + buf + ")";
}

// lvalue navigation for GEP: returns expression of the addressed element (lvalue), to be prefixed with &
static std::string gep_expr(const GEPOperator* g, FnCtx* cx) {
  std::string base = cexpr(g->getPointerOperand(), cx);
  Type* srcTy = g->getSourceElementType();
  // pointer operand C type is pointer to srcTy already (typed pointers)
  std::string e;
  auto it = gep_type_begin(g), ie = gep_type_end(g);
  bool first = true;
  for (; it != ie; ++it) {
    const Value* idx = it.getOperand();
    std::string is;
    if (auto* ci = dyn_cast<ConstantInt>(idx)) is = std::to_string(ci->getSExtValue());
    else {
      unsigned w = idx->getType()->getIntegerBitWidth();
      is = "(int64_t)(" + stype(w) + ")" + cexpr(idx, cx);
    }
    if (first) { e = "(" + base + ")[" + is + "]"; first = false; continue; }
    if (it.isStruct()) e += ".f" + is;
    else e += ".e[" + is + "]";
  }
  (void)srcTy;
  return e;
}

static std::string const_init(const Constant* c);

static std::string cexpr(const Value* v, FnCtx* cx) {
  if (cx) { auto it = cx->names.find(v); if (it != cx->names.end()) return it->second; }
  if (auto* ci = dyn_cast<ConstantInt>(v)) return int_const(ci->getValue());
  if (auto* cf = dyn_cast<ConstantFP>(v)) return fp_const(cf);
  if (isa<ConstantPointerNull>(v)) return zero_of(v->getType());
  if (isa<UndefValue>(v)) return zero_of(v->getType());
  if (isa<ConstantAggregateZero>(v)) return zero_of(v->getType());
  if (auto* f = dyn_cast<Function>(v)) return gname.at(f);
  if (auto* g = dyn_cast<GlobalVariable>(v)) return "(&" + gname.at(g) + ")";
  if (auto* ga = dyn_cast<GlobalAlias>(v)) return cexpr(ga->getAliasee(), cx);
  if (auto* ce = dyn_cast<ConstantExpr>(v)) {
    switch (ce->getOpcode()) {
      case Instruction::GetElementPtr: return "(&" + gep_expr(cast<GEPOperator>(ce), cx) + ")";
      case Instruction::BitCast: case Instruction::AddrSpaceCast:
        return "((" + ctype(ce->getType()) + ")" + cexpr(ce->getOperand(0), cx) + ")";
      case Instruction::PtrToInt: return "((" + ctype(ce->getType()) + ")(uintptr_t)" + cexpr(ce->getOperand(0), cx) + ")";
      case Instruction::IntToPtr: return "((" + ctype(ce->getType()) + ")(uintptr_t)" + cexpr(ce->getOperand(0), cx) + ")";
      case Instruction::Add: return "(" + cexpr(ce->getOperand(0), cx) + "+" + cexpr(ce->getOperand(1), cx) + ")";
      case Instruction::Sub: return "(" + cexpr(ce->getOperand(0), cx) + "-" + cexpr(ce->getOperand(1), cx) + ")";
      default: { std::string s; raw_string_ostream os(s); ce->print(os); fail("constexpr " + os.str()); return "0"; }
    }
  }
  if (auto* c = dyn_cast<Constant>(v)) { // aggregate constant used as operand
    return "((" + ctype(c->getType()) + ")" + const_init(c) + ")";
  }
  std::string s; raw_string_ostream os(s); v->print(os); fail("value " + os.str()); return "0";
}

static std::string const_init(const Constant* c) {
  Type* t = c->getType();
  if (isa<ConstantAggregateZero>(c) || isa<UndefValue>(c)) { return (t->isStructTy() || t->isArrayTy()) ? "{0}" : cexpr(c, nullptr); }
  if (auto* cs = dyn_cast<ConstantStruct>(c)) {
    std::string r = "{";
    for (unsigned i = 0; i < cs->getNumOperands(); ++i) { if (i) r += ", "; r += const_init(cs->getOperand(i)); }
    return r + "}";
  }
  if (auto* ca = dyn_cast<ConstantArray>(c)) {
    std::string r = "{{";
    for (unsigned i = 0; i < ca->getNumOperands(); ++i) { if (i) r += ", "; r += const_init(ca->getOperand(i)); }
    return r + "}}";
  }
  if (auto* cd = dyn_cast<ConstantDataSequential>(c)) {
    std::string r = "{{";
    for (unsigned i = 0; i < cd->getNumElements(); ++i) { if (i) r += ", "; r += const_init(cd->getElementAsConstant(i)); }
    return r + "}}";
  }
  return cexpr(c, nullptr);
}

static bool is_noise_intrinsic(const Function* f) {
  if (!f) return false;
  switch (f->getIntrinsicID()) {
    case Intrinsic::lifetime_start: case Intrinsic::lifetime_end: case Intrinsic::dbg_declare: case Intrinsic::dbg_value:
    case Intrinsic::dbg_label: case Intrinsic::assume: case Intrinsic::invariant_start: case Intrinsic::invariant_end:
    case Intrinsic::experimental_noalias_scope_decl: case Intrinsic::donothing: case Intrinsic::prefetch:
      return true;
    default: return false;
  }
}

static std::string sx(const std::string& e, unsigned w) { // sign-extend value of width w held in its C unsigned type into signed C type
  unsigned b = cbits(w);
  if (b == w) return "((" + stype(w) + ")" + e + ")";
  return "((" + stype(w) + ")((" + stype(w) + ")((" + utype(w) + ")(" + e + ") << " + std::to_string(b - w) + ") >> " + std::to_string(b - w) + "))";
}
static std::string mask(const std::string& e, unsigned w) {
  unsigned b = cbits(w);
  if (b == w) return "((" + utype(w) + ")(" + e + "))";
  if (w == 1) return "((" + utype(w) + ")((" + e + ")&1))";
  return "((" + utype(w) + ")((" + e + ") & ((((" + utype(w) + ")1)<<" + std::to_string(w) + ")-1)))";
}

static void emit_phi_copies(raw_ostream& o, const BasicBlock* from, const BasicBlock* to, FnCtx& cx, const std::string& ind) {
  std::vector<std::pair<std::string, std::string>> cp;
  for (const PHINode& p : to->phis()) {
    const Value* in = p.getIncomingValueForBlock(from);
    if (isa<UndefValue>(in)) continue;
    cp.push_back({cx.names.at(&p), cexpr(in, &cx)});
  }
  if (cp.empty()) return;
  if (cp.size() == 1) { o << ind << cp[0].first << " = " << cp[0].second << ";\n"; return; }
  for (auto& c : cp) o << ind << c.first << "__in = " << c.second << ";\n";
  for (auto& c : cp) o << ind << c.first << " = " << c.first << "__in;\n";
}

static void emit_goto(raw_ostream& o, const BasicBlock* from, const BasicBlock* to, FnCtx& cx, const std::string& ind) {
  emit_phi_copies(o, from, to, cx, ind);
  o << ind << "goto " << cx.bbn.at(to) << ";\n";
}

static std::string ret_zero(Function* F) {
  Type* rt = F->getReturnType();
  if (rt->isVoidTy()) return "return;";
  return "return " + zero_of(rt) + ";";
}

static std::string call_expr(const CallBase* cb, FnCtx& cx, std::vector<std::string>& pre) {
  const Function* callee = cb->getCalledFunction();
  std::string fn;
  FunctionType* ft = cb->getFunctionType();
  if (callee) fn = gname.at(callee);
  else {
    const Value* cv = cb->getCalledOperand();
    fn = "(" + cexpr(cv, &cx) + ")";
    if (auto* ce = dyn_cast<ConstantExpr>(cv)) (void)ce;
  }
  // if calling through a bitcast with different type, cast function pointer
  if (callee && callee->getFunctionType() != ft) {
    fn = "((" + cdecl(PointerType::getUnqual(ft), "") + ")" + fn + ")";
  }
  std::string args;
  for (unsigned i = 0; i < cb->arg_size(); ++i) {
    if (i) args += ", ";
    std::string a = cexpr(cb->getArgOperand(i), &cx);
    if (cb->isByValArgument(i)) {
      Type* bt = cb->getParamByValType(i);
      std::string t = "byval" + std::to_string(cx.tmp++);
      pre.push_back(ctype(bt) + " " + t + " = *(" + ctype(bt) + "*)(" + a + ");");
      a = "((" + ctype(cb->getArgOperand(i)->getType()) + ")&" + t + ")";
    }
    args += a;
  }
  return fn + "(" + args + ")";
}


static Type* new_elem_type(const CallBase* cb) {
  Type* et = nullptr; int nb = 0;
  for (const User* u : cb->users()) {
    if (auto* bc = dyn_cast<BitCastInst>(u)) { Type* e = bc->getDestTy()->getPointerElementType(); if (e->isSized() && !e->isIntegerTy(8)) { et = e; ++nb; } }
    else if (auto* st = dyn_cast<StoreInst>(u)) {
      if (st->getValueOperand() == cb) if (auto* bc = dyn_cast<BitCastInst>(st->getPointerOperand())) {
        Type* pp = bc->getSrcTy()->getPointerElementType();
        if (pp->isPointerTy()) { Type* e = pp->getPointerElementType(); if (e->isSized() && !e->isIntegerTy(8) && !e->isFunctionTy()) { et = e; ++nb; } }
      }
    }
  }
  return nb == 1 ? et : nullptr;
}
static bool is_new(const Function* f) { return f && (f->getName() == "_Znwm" || f->getName() == "_Znam"); }

static void emit_function(raw_ostream& o, Function& F) {
  FnCtx cx; cx.F = &F;
  int n = 0;
  for (Argument& a : F.args()) cx.names[&a] = "a" + std::to_string(n++);
  n = 0; int bn = 0;
  for (BasicBlock& bb : F) {
    cx.bbn[&bb] = "bb" + std::to_string(bn++);
    for (Instruction& i : bb) if (!i.getType()->isVoidTy()) cx.names[&i] = "v" + std::to_string(n++);
  }
  // signature
  std::string ps;
  for (Argument& a : F.args()) { if (!ps.empty()) ps += ", "; ps += cdecl(a.getType(), cx.names[&a]); }
  if (ps.empty()) ps = "void";
  o << cdecl(F.getReturnType(), gname.at(&F) + "(" + ps + ")") << " {\n";
  // (a) assert-unreachable cuts: selected per query with -DVERIF_CUT_<NAME>; the solver must prove the function unreachable
  for (auto& c : cuts) {
    if (F.getName().find(c.first) != StringRef::npos && StringRef(c.second).startswith("HAVOC_") && (F.getReturnType()->isDoubleTy() || F.getReturnType()->isIntegerTy(64))) {
      // havoc stub (selected with -DVERIF_<NAME>): the function returns an arbitrary value of its type and has no side effect
      o << "#if defined(VERIF_CBMC) && defined(VERIF_" << c.second << ")\n  { " << (F.getReturnType()->isDoubleTy() ? "double nondet_double(void); return nondet_double();" : "uint64_t nondet_u64(void); return nondet_u64();") << " }\n#endif\n";
      continue;
    }
    if (F.getName().find(c.first) != StringRef::npos && StringRef(c.second).startswith("SKIP_") && F.getReturnType()->isVoidTy()) {
      // skip stub (selected with -DVERIF_<NAME>): the void function does nothing; only for state that no assertion of the query reads
      o << "#if defined(VERIF_CBMC) && defined(VERIF_" << c.second << ")\n  return;\n#endif\n";
      continue;
    }
    if (F.getName().find(c.first) != StringRef::npos) {
      o << "#if defined(VERIF_CBMC) && defined(VERIF_CUT_" << c.second << ")\n"
        << "  __CPROVER_assert(0, \"ENCODING-BOUND: cut function reached (" << c.second << ")\"); __CPROVER_assume(0); " << ret_zero(&F) << "\n#endif\n";
    }
  }
  // (b) model of std::vector<T>::_M_realloc_insert(pos, const T& / T&&) for scalar T with std::allocator: one fixed-capacity block
  if (F.getName().startswith("_ZNSt6vectorI") && F.getName().contains("17_M_realloc_insertI") && F.getName().contains("SaI") && F.arg_size() == 3) {
    Type* t0 = F.getArg(0)->getType(); Type* t1 = F.getArg(1)->getType(); Type* t2 = F.getArg(2)->getType();
    if (t1 == t2 && t1->isPointerTy()) {
      Type* et = t1->getPointerElementType();
      // walk this->f0.f0.f0... down to the {T*,T*,T*} struct
      std::string path = "(*a0)"; Type* cur = t0->getPointerElementType(); bool ok = false;
      for (int depth = 0; depth < 6 && cur->isStructTy(); ++depth) {
        auto* st = cast<StructType>(cur);
        if (st->getNumElements() == 3 && st->getElementType(0) == t1 && st->getElementType(1) == t1 && st->getElementType(2) == t1) { ok = true; break; }
        if (st->getNumElements() < 1) break;
        path += ".f0"; cur = st->getElementType(0);
      }
      // element types: scalars, and std::pair of scalars (trivially copyable: relocation is a plain copy)
      bool pair_of_scalars = false;
      if (auto* pst = dyn_cast<StructType>(et)) {
        if (pst->hasName() && pst->getName().startswith("struct.std::pair") && pst->getNumElements() >= 2) {
          pair_of_scalars = true;
          for (Type* m : pst->elements()) if (!(m->isIntegerTy() || m->isFloatingPointTy() || m->isPointerTy() || (m->isArrayTy() && m->getArrayElementType()->isIntegerTy(8)))) pair_of_scalars = false;   // [n x i8] = tail padding
        }
      }
      if (ok && (et->isIntegerTy() || et->isFloatingPointTy() || et->isPointerTy() || pair_of_scalars)) {
        std::string T = ctype(et);
        o << "#if defined(VERIF_CBMC) && defined(VERIF_VEC_CAP)\n"
          << "  { " << T << "* os = " << path << ".f0; " << T << "* of = " << path << ".f1;\n"
          << "    uint64_t n = os ? (uint64_t)(of - os) : 0, idx = os ? (uint64_t)(a1 - os) : 0;\n"
          << "    __CPROVER_assert(n < VERIF_VEC_CAP, \"ENCODING-BOUND: std::vector grows beyond VERIF_VEC_CAP elements\"); __CPROVER_assume(n < VERIF_VEC_CAP);\n"
          << "    " << T << "* nb = (" << T << "*)malloc(sizeof(" << T << ") * VERIF_VEC_CAP); __CPROVER_assume(nb != 0); verif_live_blocks++;\n"
          << "    for (uint64_t i = 0; i < VERIF_VEC_CAP; i++) if (i < idx) nb[i] = os[i];\n"
          << "    nb[idx] = *a2;\n"
          << "    for (uint64_t i = 0; i < VERIF_VEC_CAP; i++) if (i >= idx && i < n) nb[i + 1] = os[i];\n"
          << "    if (os) { free(os); verif_live_blocks--; }\n"
          << "    " << path << ".f0 = nb; " << path << ".f1 = nb + n + 1; " << path << ".f2 = nb + VERIF_VEC_CAP; return; }\n#endif\n";
      }
    }
  }
  // locals
  for (BasicBlock& bb : F) for (Instruction& i : bb) {
    if (i.getType()->isVoidTy()) continue;
    if (auto* ai = dyn_cast<AllocaInst>(&i)) {
      Type* at = ai->getAllocatedType();
      uint64_t cnt = 1;
      if (auto* c = dyn_cast<ConstantInt>(ai->getArraySize())) cnt = c->getZExtValue(); else fail("dynamic alloca");
      std::string st = cx.names[&i] + "_mem";
      o << "  " << cdecl(at, st + (cnt > 1 ? "[" + std::to_string(cnt) + "]" : "")) << ";\n";
      o << "  " << cdecl(i.getType(), cx.names[&i]) << " = " << (cnt > 1 ? st : "&" + st) << ";\n";
      continue;
    }
    o << "  " << cdecl(i.getType(), cx.names[&i]) << ";\n";
    if (isa<PHINode>(&i)) o << "  " << cdecl(i.getType(), cx.names[&i] + "__in") << ";\n";
  }
  for (BasicBlock& bb : F) {
    o << " " << cx.bbn[&bb] << ": ;\n";
    for (Instruction& I : bb) {
      std::string lhs = I.getType()->isVoidTy() ? "" : cx.names[&I] + " = ";
      auto op = [&](unsigned k) { return cexpr(I.getOperand(k), &cx); };
      if (isa<PHINode>(&I) || isa<AllocaInst>(&I)) continue;
      if (auto* bo = dyn_cast<BinaryOperator>(&I)) {
        Type* t = I.getType();
        if (t->isFloatingPointTy()) {
          const char* s = nullptr;
          switch (bo->getOpcode()) { case Instruction::FAdd: s = "+"; break; case Instruction::FSub: s = "-"; break; case Instruction::FMul: s = "*"; break; case Instruction::FDiv: s = "/"; break; default: break; }
          if (s) o << "  " << lhs << "(" << op(0) << s << op(1) << ");\n";
          else if (bo->getOpcode() == Instruction::FRem) o << "  " << lhs << (t->isFloatTy() ? "fmodf(" : "fmod(") << op(0) << "," << op(1) << ");\n";
          else fail("fp binop");
          continue;
        }
        unsigned w = t->getIntegerBitWidth();
        // pointer difference: sub(ptrtoint a, ptrtoint b) is emitted as a C pointer subtraction so that cbmc's simplifier can fold it
        // (integer casts of pointers are opaque to it, which makes every size()/capacity() computation symbolic)
        if (bo->getOpcode() == Instruction::Sub && w == 64) {
          auto* pa = dyn_cast<PtrToIntOperator>(bo->getOperand(0)); auto* pb = dyn_cast<PtrToIntOperator>(bo->getOperand(1));
          if (pa && pb) {
            std::string A = cexpr(pa->getPointerOperand(), &cx), B = cexpr(pb->getPointerOperand(), &cx);
            // equal pointers (e.g. NULL - NULL of an empty std::vector, legal in LLVM/C++) give 0 without forming a C pointer difference
            o << "  " << lhs << "((const void*)" << A << " == (const void*)" << B << " ? (uint64_t)0 : (uint64_t)((uint8_t*)" << A << " - (uint8_t*)" << B << "));\n";
            continue;
          }
        }
        std::string a = op(0), b = op(1), e;
        switch (bo->getOpcode()) {
          case Instruction::Add: e = a + "+" + b; break;
          case Instruction::Sub: e = a + "-" + b; break;
          case Instruction::Mul:
            if (w == 64) { // 64-bit products go through a macro: plain '*' by default, an uninterpreted function under -DVERIF_UF_MUL (constant operand second)
              if (isa<ConstantInt>(bo->getOperand(0)) && !isa<ConstantInt>(bo->getOperand(1))) std::swap(a, b);
              auto* c1 = dyn_cast<ConstantInt>(bo->getOperand(0)); auto* c2 = dyn_cast<ConstantInt>(bo->getOperand(1));
              bool smallc = (c1 && c1->getValue().ult(65536)) || (c2 && c2->getValue().ult(65536));   // index arithmetic and x*5 stay exact
              e = smallc ? "(uint64_t)" + a + "*(uint64_t)" + b : "VERIF_MUL64(" + a + ", " + b + ")";
            } else e = "(" + utype(w) + ")" + a + "*(" + utype(w) + ")" + b;
            break;
          case Instruction::UDiv: e = a + "/" + b; break;
          case Instruction::URem: e = a + "%" + b; break;
          case Instruction::SDiv: e = "(" + utype(w) + ")(" + sx(a, w) + "/" + sx(b, w) + ")"; break;
          case Instruction::SRem: e = "(" + utype(w) + ")(" + sx(a, w) + "%" + sx(b, w) + ")"; break;
          case Instruction::Shl: e = "(" + utype(w) + ")" + a + "<<" + b; break;
          case Instruction::LShr: e = "(" + utype(w) + ")" + a + ">>" + b; break;
          case Instruction::AShr: e = "(" + utype(w) + ")(" + sx(a, w) + ">>" + b + ")"; break;
          case Instruction::And: e = a + "&" + b; break;
          case Instruction::Or: e = a + "|" + b; break;
          case Instruction::Xor: e = a + "^" + b; break;
          default: fail("binop"); e = "0";
        }
        o << "  " << lhs << mask(e, w) << ";\n";
        continue;
      }
      if (auto* un = dyn_cast<UnaryOperator>(&I)) { if (un->getOpcode() == Instruction::FNeg) o << "  " << lhs << "(-" << op(0) << ");\n"; else fail("unop"); continue; }
      if (auto* ic = dyn_cast<ICmpInst>(&I)) {
        Type* ot = ic->getOperand(0)->getType();
        std::string a = op(0), b = op(1);
        if (ot->isPointerTy()) {
          if (ic->getPredicate() == CmpInst::ICMP_EQ || ic->getPredicate() == CmpInst::ICMP_NE) {   // plain pointer (in)equality: foldable by cbmc
            o << "  " << lhs << "((const void*)" << a << (ic->getPredicate() == CmpInst::ICMP_EQ ? " == " : " != ") << "(const void*)" << b << ");\n";
            continue;
          }
          a = "(uintptr_t)" + a; b = "(uintptr_t)" + b;
        }
        unsigned w = ot->isPointerTy() ? 64 : ot->getIntegerBitWidth();
        const char* s = nullptr; bool sg = false;
        switch (ic->getPredicate()) {
          case CmpInst::ICMP_EQ: s = "=="; break; case CmpInst::ICMP_NE: s = "!="; break;
          case CmpInst::ICMP_UGT: s = ">"; break; case CmpInst::ICMP_UGE: s = ">="; break;
          case CmpInst::ICMP_ULT: s = "<"; break; case CmpInst::ICMP_ULE: s = "<="; break;
          case CmpInst::ICMP_SGT: s = ">"; sg = true; break; case CmpInst::ICMP_SGE: s = ">="; sg = true; break;
          case CmpInst::ICMP_SLT: s = "<"; sg = true; break; case CmpInst::ICMP_SLE: s = "<="; sg = true; break;
          default: fail("icmp pred");
        }
        if (sg) { a = sx(a, w); b = sx(b, w); }
        o << "  " << lhs << "(" << a << s << b << ");\n";
        continue;
      }
      if (auto* fc = dyn_cast<FCmpInst>(&I)) {
        std::string a = op(0), b = op(1), e;
        std::string uno = "((" + a + "!=" + a + ")||(" + b + "!=" + b + "))";
        auto ord = [&](const char* s) { return "(" + a + s + b + ")"; };
        switch (fc->getPredicate()) {
          case CmpInst::FCMP_OEQ: e = ord("=="); break; case CmpInst::FCMP_OGT: e = ord(">"); break;
          case CmpInst::FCMP_OGE: e = ord(">="); break; case CmpInst::FCMP_OLT: e = ord("<"); break;
          case CmpInst::FCMP_OLE: e = ord("<="); break; case CmpInst::FCMP_ONE: e = "(!" + uno + "&&" + ord("!=") + ")"; break;
          case CmpInst::FCMP_ORD: e = "(!" + uno + ")"; break; case CmpInst::FCMP_UNO: e = uno; break;
          case CmpInst::FCMP_UEQ: e = "(" + uno + "||" + ord("==") + ")"; break; case CmpInst::FCMP_UGT: e = "(" + uno + "||" + ord(">") + ")"; break;
          case CmpInst::FCMP_UGE: e = "(" + uno + "||" + ord(">=") + ")"; break; case CmpInst::FCMP_ULT: e = "(" + uno + "||" + ord("<") + ")"; break;
          case CmpInst::FCMP_ULE: e = "(" + uno + "||" + ord("<=") + ")"; break; case CmpInst::FCMP_UNE: e = ord("!="); break;
          case CmpInst::FCMP_FALSE: e = "0"; break; case CmpInst::FCMP_TRUE: e = "1"; break;
          default: fail("fcmp pred");
        }
        o << "  " << lhs << e << ";\n";
        continue;
      }
      if (auto* ci = dyn_cast<CastInst>(&I)) {
        Type* st = ci->getSrcTy(); Type* dt = ci->getDestTy();
        std::string a = op(0), e;
        switch (ci->getOpcode()) {
          case Instruction::Trunc: e = mask("(" + utype(dt->getIntegerBitWidth()) + ")" + a, dt->getIntegerBitWidth()); break;
          case Instruction::ZExt: e = "((" + ctype(dt) + ")" + a + ")"; break;
          case Instruction::SExt: e = mask("(" + utype(dt->getIntegerBitWidth()) + ")(" + stype(dt->getIntegerBitWidth()) + ")" + sx(a, st->getIntegerBitWidth()), dt->getIntegerBitWidth()); break;
          case Instruction::FPToUI: e = mask("(" + utype(dt->getIntegerBitWidth()) + ")" + a, dt->getIntegerBitWidth()); break;
          case Instruction::FPToSI: e = mask("(" + utype(dt->getIntegerBitWidth()) + ")(" + stype(dt->getIntegerBitWidth()) + ")" + a, dt->getIntegerBitWidth()); break;
          case Instruction::UIToFP: e = "((" + ctype(dt) + ")" + a + ")"; break;
          case Instruction::SIToFP: e = "((" + ctype(dt) + ")" + sx(a, st->getIntegerBitWidth()) + ")"; break;
          case Instruction::FPTrunc: case Instruction::FPExt: e = "((" + ctype(dt) + ")" + a + ")"; break;
          case Instruction::PtrToInt: e = "((" + ctype(dt) + ")(uintptr_t)" + a + ")"; break;
          case Instruction::IntToPtr: e = "((" + ctype(dt) + ")(uintptr_t)" + a + ")"; break;
          case Instruction::BitCast:
            if (st->isPointerTy() && dt->isPointerTy()) e = "((" + ctype(dt) + ")" + a + ")";
            else if (st->isIntegerTy(64) && dt->isDoubleTy()) e = "verif_f64_from_bits(" + a + ")";
            else if (st->isDoubleTy() && dt->isIntegerTy(64)) e = "verif_f64_to_bits(" + a + ")";
            else if (st->isIntegerTy(32) && dt->isFloatTy()) e = "verif_f32_from_bits(" + a + ")";
            else if (st->isFloatTy() && dt->isIntegerTy(32)) e = "verif_f32_to_bits(" + a + ")";
            else { fail("bitcast kind"); e = "0"; }
            break;
          default: fail("cast"); e = "0";
        }
        o << "  " << lhs << e << ";\n";
        continue;
      }
      if (auto* si = dyn_cast<SelectInst>(&I)) { o << "  " << lhs << "(" << op(0) << " ? " << op(1) << " : " << op(2) << ");\n"; continue; }
      if (isa<FreezeInst>(&I)) { o << "  " << lhs << op(0) << ";\n"; continue; }
      if (auto* li = dyn_cast<LoadInst>(&I)) { o << "  " << lhs << "*" << op(0) << ";\n"; continue; }
      if (auto* st = dyn_cast<StoreInst>(&I)) { o << "  *" << op(1) << " = " << op(0) << ";\n"; continue; }
      if (auto* g = dyn_cast<GetElementPtrInst>(&I)) { o << "  " << lhs << "&" << gep_expr(cast<GEPOperator>(g), &cx) << ";\n"; continue; }
      if (auto* ev = dyn_cast<ExtractValueInst>(&I)) {
        std::string e = op(0); Type* t = ev->getAggregateOperand()->getType();
        for (unsigned ix : ev->indices()) { if (t->isStructTy()) { e += ".f" + std::to_string(ix); t = t->getStructElementType(ix); } else { e += ".e[" + std::to_string(ix) + "]"; t = t->getArrayElementType(); } }
        o << "  " << lhs << e << ";\n"; continue;
      }
      if (auto* iv = dyn_cast<InsertValueInst>(&I)) {
        std::string me = cx.names[&I];
        o << "  " << me << " = " << op(0) << ";\n";
        std::string e = me; Type* t = iv->getAggregateOperand()->getType();
        for (unsigned ix : iv->indices()) { if (t->isStructTy()) { e += ".f" + std::to_string(ix); t = t->getStructElementType(ix); } else { e += ".e[" + std::to_string(ix) + "]"; t = t->getArrayElementType(); } }
        o << "  " << e << " = " << op(1) << ";\n"; continue;
      }
      if (auto* lp = dyn_cast<LandingPadInst>(&I)) {
        o << "  " << cx.names[&I] << ".f0 = (uint8_t*)verif_exc_obj; " << cx.names[&I] << ".f1 = verif_exc_sel;\n";
        continue;
      }
      if (auto* cb = dyn_cast<CallBase>(&I)) {
        const Function* callee = cb->getCalledFunction();
        if (is_noise_intrinsic(callee)) {
          if (auto* inv = dyn_cast<InvokeInst>(cb)) emit_goto(o, &bb, inv->getNormalDest(), cx, "  ");
          continue;
        }
        if (callee && (callee->getIntrinsicID() == Intrinsic::umul_with_overflow || callee->getIntrinsicID() == Intrinsic::uadd_with_overflow || callee->getIntrinsicID() == Intrinsic::usub_with_overflow)) {
          unsigned w = cb->getArgOperand(0)->getType()->getIntegerBitWidth();
          std::string a = cexpr(cb->getArgOperand(0), &cx), b = cexpr(cb->getArgOperand(1), &cx), me = cx.names[&I], T = utype(w);
          if (callee->getIntrinsicID() == Intrinsic::umul_with_overflow)
            o << "  " << me << ".f0 = (" << T << ")((" << T << ")" << a << " * (" << T << ")" << b << "); " << me << ".f1 = (" << b << " != 0 && (" << T << ")(" << me << ".f0 / " << b << ") != " << a << ");\n";
          else if (callee->getIntrinsicID() == Intrinsic::uadd_with_overflow)
            o << "  " << me << ".f0 = (" << T << ")(" << a << " + " << b << "); " << me << ".f1 = (" << me << ".f0 < " << a << ");\n";
          else
            o << "  " << me << ".f0 = (" << T << ")(" << a << " - " << b << "); " << me << ".f1 = (" << a << " < " << b << ");\n";
          if (auto* inv = dyn_cast<InvokeInst>(cb)) emit_goto(o, &bb, inv->getNormalDest(), cx, "  ");
          continue;
        }
        if (callee && (callee->getName() == "_Znwm" || callee->getName() == "_Znam")) {
          Type* et = new_elem_type(cb); int nb = et ? 1 : 0;
          if (et && nb == 1) {
            std::string T = ctype(et); if (et->isPointerTy()) T = "verif_ptr_t";
            std::string tag = sanitize(T); new_types[tag] = T;
            o << "  " << lhs << (isa<ConstantInt>(cb->getArgOperand(0)) ? "verif_newc_" : "verif_new_") << tag << "(" << cexpr(cb->getArgOperand(0), &cx) << ");\n";
            if (auto* inv = dyn_cast<InvokeInst>(cb)) emit_goto(o, &bb, inv->getNormalDest(), cx, "  ");
            continue;
          }
        }
        if (callee && (callee->getIntrinsicID() == Intrinsic::memcpy || callee->getIntrinsicID() == Intrinsic::memmove || callee->getIntrinsicID() == Intrinsic::memset)) {
          bool isSet = callee->getIntrinsicID() == Intrinsic::memset;
          auto elemOf = [&](const Value* p) -> Type* {
            const Value* sp = p->stripPointerCasts();
            Type* e = sp->getType()->getPointerElementType();
            if (auto* ncb = dyn_cast<CallBase>(sp)) if (is_new(ncb->getCalledFunction())) if (Type* ne = new_elem_type(ncb)) e = ne;
            while (e->isArrayTy()) e = e->getArrayElementType();
            if ((e->isIntegerTy() && !e->isIntegerTy(8) && !e->isIntegerTy(1)) || e->isFloatTy() || e->isDoubleTy() || e->isPointerTy()) return e;
            if (e->isStructTy() && !cast<StructType>(e)->isOpaque() && !isSet) return e;
            return nullptr;
          };
          // constant-size whole-object forms: struct assignment / zero initialisation
          bool done = false;
          if (auto* lenc = dyn_cast<ConstantInt>(cb->getArgOperand(2))) {
            uint64_t len = lenc->getZExtValue();
            const Value* dp = cb->getArgOperand(0)->stripPointerCasts();
            Type* dt = dp->getType()->getPointerElementType();
            bool zeroSet = isSet && isa<ConstantInt>(cb->getArgOperand(1)) && cast<ConstantInt>(cb->getArgOperand(1))->isZero();
            if (len == 0) done = true;
            else if (dt->isSized() && (dt->isStructTy() || dt->isArrayTy()) && !(dt->isStructTy() && cast<StructType>(dt)->isOpaque())) {
              if (zeroSet) {
                // descend while the first element still covers len; then zero a prefix of fields
                std::string lv = "(*" + cexpr(dp, &cx) + ")"; Type* cur = dt;
                while (true) {
                  uint64_t sz = DL->getTypeAllocSize(cur);
                  if (sz == len) { o << "  " << lv << " = " << zero_of(cur) << ";\n"; done = true; break; }
                  if (auto* st = dyn_cast<StructType>(cur)) {
                    if (st->getNumElements() == 0) break;
                    const StructLayout* sl = DL->getStructLayout(st);
                    // prefix of fields exactly covering len?
                    unsigned k = 0; bool exact = false;
                    for (unsigned i = 0; i < st->getNumElements(); ++i) {
                      uint64_t end = sl->getElementOffset(i) + DL->getTypeAllocSize(st->getElementType(i));
                      uint64_t nextoff = (i + 1 < st->getNumElements()) ? sl->getElementOffset(i + 1) : sl->getSizeInBytes();
                      if (len >= end && len <= nextoff) { k = i + 1; exact = true; break; }
                      if (len < end) break;
                    }
                    if (exact && k >= 1 && !(k == 1 && DL->getTypeAllocSize(st->getElementType(0)) > len)) {
                      for (unsigned i = 0; i < k; ++i) o << "  " << lv << ".f" << i << " = " << zero_of(st->getElementType(i)) << ";\n";
                      done = true; break;
                    }
                    if (DL->getTypeAllocSize(st->getElementType(0)) >= len) { lv += ".f0"; cur = st->getElementType(0); continue; }
                    break;
                  } else if (auto* at = dyn_cast<ArrayType>(cur)) {
                    uint64_t es = DL->getTypeAllocSize(at->getElementType());
                    if (es && len % es == 0 && len / es <= at->getNumElements() && len / es <= 64) {
                      for (uint64_t i = 0; i < len / es; ++i) o << "  " << lv << ".e[" << i << "] = " << zero_of(at->getElementType()) << ";\n";
                      done = true; break;
                    }
                    if (es >= len) { lv += ".e[0]"; cur = at->getElementType(); continue; }
                    break;
                  } else break;
                }
              } else if (!isSet) {
                const Value* sp2 = cb->getArgOperand(1)->stripPointerCasts();
                Type* st2 = sp2->getType()->getPointerElementType();
                if (st2 == dt && DL->getTypeAllocSize(dt) == len) {
                  o << "  *" << cexpr(dp, &cx) << " = *" << cexpr(sp2, &cx) << ";\n"; done = true;
                }
              }
            }
          }
          if (!done) {
            Type* et = elemOf(cb->getArgOperand(0));
            if (!et && !isSet) et = elemOf(cb->getArgOperand(1));
            std::string T = et ? ctype(et) : std::string("uint8_t");
            if (et && et->isPointerTy()) T = "verif_ptr_t";
            std::string tag = sanitize(T);
            mem_types[tag] = T;
            const char* m = isSet ? "verif_memset_" : (callee->getIntrinsicID() == Intrinsic::memcpy ? "verif_memcpy_" : "verif_memmove_");
            o << "  " << m << tag << "((void*)" << cexpr(cb->getArgOperand(0), &cx) << ", " << (isSet ? "" : "(const void*)") << cexpr(cb->getArgOperand(1), &cx) << ", " << cexpr(cb->getArgOperand(2), &cx) << ");\n";
          }
          if (auto* inv = dyn_cast<InvokeInst>(cb)) emit_goto(o, &bb, inv->getNormalDest(), cx, "  ");
          continue;
        }
        std::vector<std::string> pre;
        std::string ce = call_expr(cb, cx, pre);
        bool hasPre = !pre.empty();
        if (hasPre) { o << "  {\n"; for (auto& p : pre) o << "  " << p << "\n"; }
        o << "  " << lhs << ce << ";\n";
        if (hasPre) o << "  }\n";
        bool mayThrow = !cb->doesNotThrow();
        if (auto* inv = dyn_cast<InvokeInst>(cb)) {
          o << "  if (verif_exc) {\n"; emit_goto(o, &bb, inv->getUnwindDest(), cx, "    "); o << "  }\n";
          emit_goto(o, &bb, inv->getNormalDest(), cx, "  ");
        } else if (mayThrow) {
          o << "  if (verif_exc) " << ret_zero(&F) << "\n";
        }
        continue;
      }
      if (auto* br = dyn_cast<BranchInst>(&I)) {
        if (br->isUnconditional()) emit_goto(o, &bb, br->getSuccessor(0), cx, "  ");
        else {
          o << "  if (" << op(0) << ") {\n"; emit_goto(o, &bb, br->getSuccessor(0), cx, "    ");
          o << "  } else {\n"; emit_goto(o, &bb, br->getSuccessor(1), cx, "    "); o << "  }\n";
        }
        continue;
      }
      if (auto* sw = dyn_cast<SwitchInst>(&I)) {
        std::string c = op(0);
        for (auto& cs : sw->cases()) {
          o << "  if (" << c << " == " << int_const(cs.getCaseValue()->getValue()) << ") {\n";
          emit_goto(o, &bb, cs.getCaseSuccessor(), cx, "    "); o << "  }\n";
        }
        emit_goto(o, &bb, sw->getDefaultDest(), cx, "  ");
        continue;
      }
      if (auto* r = dyn_cast<ReturnInst>(&I)) { if (r->getReturnValue()) o << "  return " << op(0) << ";\n"; else o << "  return;\n"; continue; }
      if (isa<ResumeInst>(&I)) { o << "  verif_exc = 1; " << ret_zero(&F) << "\n"; continue; }
      if (isa<UnreachableInst>(&I)) { o << "  verif_unreachable(); " << ret_zero(&F) << "\n"; continue; }
      if (isa<FenceInst>(&I)) continue;
      { std::string s; raw_string_ostream os(s); I.print(os); fail("instruction " + os.str()); }
    }
  }
  o << "}\n\n";
}

int main(int argc, char** argv) {
  if (argc < 3) { errs() << "usage: ll2c in.ll out.c [externs.txt [api.h]]\n"; return 2; }
  LLVMContext C; SMDiagnostic E;
  auto M = parseIRFile(argv[1], E, C);
  if (!M) { E.print("ll2c", errs()); return 1; }
  DL = &M->getDataLayout();
  if (const char* cf = getenv("LL2C_CUTS")) { FILE* f = fopen(cf, "r"); if (f) { char a[512], b[128]; while (fscanf(f, "%511s %127s", a, b) == 2) if (a[0] != '#') cuts.push_back({a, b}); fclose(f); } }
  std::error_code ec;
  raw_fd_ostream o(argv[2], ec);
  // names
  for (Function& F : *M) {
    std::string nm = F.getName().str();
    static const std::set<std::string> libc = {"strlen", "memcmp", "memchr", "strcmp", "strncmp", "bcmp", "abort", "free", "malloc", "memcpy", "memmove", "memset", "nan", "nanf"};
    if (F.isIntrinsic()) nm = "verif_" + sanitize(nm);
    else if (F.isDeclaration() && libc.count(nm)) { nm = "verif_libc_" + nm; libc_renamed.insert(&F); }
    else nm = sanitize(nm);
    used_names.insert(nm); gname[&F] = nm;
  }
  for (GlobalVariable& G : M->globals()) { std::string nm = sanitize(G.getName()); if (used_names.count(nm)) nm = uniq("g_" + nm); else used_names.insert(nm); gname[&G] = nm; }
  // types
  std::set<Type*> seen;
  for (StructType* st : M->getIdentifiedStructTypes()) visit_type(st, seen);
  for (GlobalVariable& G : M->globals()) visit_type(G.getValueType(), seen);
  for (Function& F : *M) {
    visit_type(F.getFunctionType(), seen);
    for (BasicBlock& bb : F) for (Instruction& I : bb) {
      visit_type(I.getType(), seen);
      for (Value* op : I.operands()) visit_type(op->getType(), seen);
      if (auto* ai = dyn_cast<AllocaInst>(&I)) visit_type(ai->getAllocatedType(), seen);
      if (auto* g = dyn_cast<GetElementPtrInst>(&I)) visit_type(g->getSourceElementType(), seen);
      if (auto* cb = dyn_cast<CallBase>(&I)) for (unsigned i = 0; i < cb->arg_size(); ++i) if (cb->isByValArgument(i)) visit_type(cb->getParamByValType(i), seen);
    }
  }
  o << "/* generated by ll2c from " << argv[1] << " */\n#include \"verif_rt.h\"\n\n";
  for (auto& kv : tyname) o << "struct " << kv.second << ";\n";
  o << "\n";
  for (Type* t : tyorder) {
    if (auto* st = dyn_cast<StructType>(t)) {
      if (st->isOpaque()) continue;
      o << "struct " << tyname[t] << " {";
      if (st->getNumElements() == 0) o << " char verif_empty_; ";
      for (unsigned i = 0; i < st->getNumElements(); ++i) o << " " << cdecl(st->getElementType(i), "f" + std::to_string(i)) << ";";
      o << " }" << (st->isPacked() ? " __attribute__((packed))" : "") << ";\n";
      if (st->getNumElements() > 0 && st->isSized())
        o << "_Static_assert(sizeof(struct " << tyname[t] << ") == " << DL->getTypeAllocSize(st) << ", \"layout " << tyname[t] << "\");\n";
    } else if (auto* at = dyn_cast<ArrayType>(t)) {
      o << "struct " << tyname[t] << " { " << cdecl(at->getElementType(), "e[" + std::to_string(at->getNumElements() ? at->getNumElements() : 1) + "]") << "; };\n";
    }
  }
  o << "\n";
  // function prototypes
  std::vector<std::string> externs;
  for (Function& F : *M) {
    if (is_noise_intrinsic(&F)) continue;
    if (F.getName() == "__gxx_personality_v0") { o << "int __gxx_personality_v0();\n"; continue; }
    if (F.isIntrinsic() || libc_renamed.count(&F)) continue;
    FunctionType* ft = F.getFunctionType();
    std::string ps;
    for (unsigned i = 0; i < ft->getNumParams(); ++i) { if (i) ps += ", "; ps += cdecl(ft->getParamType(i), ""); }
    if (ft->isVarArg()) ps += ps.empty() ? "" : ", ...";
    if (ps.empty()) ps = "void";
    o << cdecl(ft->getReturnType(), gname[&F] + "(" + ps + ")") << ";\n";
    if (F.isDeclaration()) externs.push_back(gname[&F]);
  }
  o << "\n";
  // globals
  for (GlobalVariable& G : M->globals()) {
    if (G.getName() == "llvm.global_ctors" || G.getName() == "llvm.global_dtors" || G.getName() == "llvm.used" || G.getName() == "llvm.compiler.used") continue;
    if (G.isDeclaration()) { o << "extern " << cdecl(G.getValueType(), gname[&G]) << ";\n"; externs.push_back("@" + gname[&G]); }
  }
  for (GlobalVariable& G : M->globals()) {
    if (G.getName().startswith("llvm.")) continue;
    if (!G.isDeclaration()) o << cdecl(G.getValueType(), gname[&G]) << ";\n";
  }
  for (GlobalVariable& G : M->globals()) {
    if (G.getName().startswith("llvm.")) continue;
    if (G.isDeclaration()) continue;
    // re-declare with initializer (tentative definitions above allow cross references)
    o << cdecl(G.getValueType(), gname[&G]) << " = " << const_init(G.getInitializer()) << ";\n";
  }
  o << "\n";
  std::string fbuf; { raw_string_ostream fo(fbuf); for (Function& F : *M) if (!F.isDeclaration()) emit_function(fo, F); }
  for (auto& kv : mem_types) o << "VERIF_DEF_MEM(" << kv.second << ", " << kv.first << ")\n";
  for (auto& kv : new_types) o << "VERIF_DEF_NEW(" << kv.second << ", " << kv.first << ")\n";
  o << "\n" << fbuf;
  // global ctors
  o << "void verif_global_ctors(void) {\n";
  if (GlobalVariable* gc = M->getGlobalVariable("llvm.global_ctors")) {
    if (auto* ca = dyn_cast<ConstantArray>(gc->getInitializer()))
      for (unsigned i = 0; i < ca->getNumOperands(); ++i) {
        auto* cs = cast<ConstantStruct>(ca->getOperand(i));
        if (auto* f = dyn_cast<Function>(cs->getOperand(1)->stripPointerCasts())) o << "  " << gname[f] << "();\n";
      }
  }
  o << "}\n";
  if (argc > 4) {
    raw_fd_ostream h(argv[4], ec);
    h << "/* generated by ll2c: prototypes of the wrapper entry points */\n#include <stdint.h>\n#include <stddef.h>\n";
    for (auto& kv : tyname) if (kv.first->isStructTy()) h << "struct " << kv.second << ";\n";
    for (Function& F : *M) {
      if (F.isDeclaration() || !(F.getName().startswith("w_"))) continue;
      FunctionType* ft = F.getFunctionType();
      std::string ps;
      for (unsigned i = 0; i < ft->getNumParams(); ++i) { if (i) ps += ", "; ps += cdecl(ft->getParamType(i), ""); }
      if (ps.empty()) ps = "void";
      h << cdecl(ft->getReturnType(), gname[&F] + "(" + ps + ")") << ";\n";
    }
  }
  if (argc > 3) { raw_fd_ostream x(argv[3], ec); for (auto& e : externs) x << e << "\n"; }
  if (n_fail) { errs() << "ll2c: " << n_fail << " unsupported constructs\n"; return 3; }
  return 0;
}
