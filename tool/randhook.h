/* harness-side implementation of the /repo randomness hook (DATASKETCHES_VERIF): every draw is a fresh nondeterministic value within
 * the documented contract of the source it replaces; verif_coin_calls counts coin flips (C08: must not depend on outcomes) */
#ifndef VERIF_RANDHOOK_H
#define VERIF_RANDHOOK_H
#include "harness.h"
static unsigned verif_coin_calls, verif_rand_calls;
#ifndef VERIF_CUSTOM_COIN
uint32_t datasketches_verif_random_bit(void) { verif_coin_calls++; return (uint32_t)ND_BOOL(); }
#endif
uint64_t datasketches_verif_rand_u64(void) { verif_rand_calls++; return ND_U64(); }
double datasketches_verif_next_double(void) {   /* uniform_real_distribution(0,1): a double in [0,1) */
  verif_rand_calls++;
  uint64_t b = ND_U64() & 0x3fffffffffffffffULL; double d = verif_bits_to_double(b);
  if (!(d >= 0.0 && d < 1.0)) d = 0.5;
  return d;
}
#endif
