/* native driver for harnesses (translator validation and counterexample replay) */
#define VERIF_NATIVE 1
#include "harness.h"
#include <stdio.h>
#include <setjmp.h>

uint64_t verif_nd_log[VERIF_ND_MAX];
unsigned verif_nd_n;
jmp_buf verif_jmp;
int verif_failed;
uint64_t verif_obs;
int verif_verbose;
int verif_random_mode;

static int replay_mode;
static uint64_t replay_vals[VERIF_ND_MAX];
static unsigned replay_n;
static uint64_t rng_state;

static uint64_t rng(void) { /* splitmix64 */
  uint64_t z = (rng_state += 0x9e3779b97f4a7c15ULL);
  z = (z ^ (z >> 30)) * 0xbf58476d1ce4e5b9ULL; z = (z ^ (z >> 27)) * 0x94d049bb133111ebULL; return z ^ (z >> 31);
}

uint64_t verif_native_draw(uint64_t lo, uint64_t hi, int ranged) {
  uint64_t v;
  if (replay_mode) {
    v = verif_nd_n < replay_n ? replay_vals[verif_nd_n] : 0;
    if (verif_nd_n >= replay_n && verif_verbose) printf("REPLAY: ran out of recorded values at draw %u\n", verif_nd_n);
  } else if (ranged || hi != UINT64_MAX) {
    uint64_t span = hi - lo;
    if (!ranged && (rng() % 4) == 0) { static const uint64_t pick[] = {0, 1, 2, 3, 7, 8, 15, 16, 31, 63, 64, 127, 128, 255}; v = pick[rng() % 14]; if (v > span) v = span; v += lo; }
    else v = span == UINT64_MAX ? rng() : lo + rng() % (span + 1);
  } else {
    switch (rng() % 4) {
      case 0: v = rng() % 16; break;
      case 1: { static const uint64_t pick[] = {0, 1, UINT64_MAX, UINT64_MAX >> 1, (UINT64_MAX >> 1) + 1, 0x7ff8000000000000ULL, 0x8000000000000000ULL, 0x3ff0000000000000ULL, 0xffffffffULL, 0x100000000ULL}; v = pick[rng() % 10]; break; }
      default: v = rng(); break;
    }
  }
  if (verif_nd_n < VERIF_ND_MAX) verif_nd_log[verif_nd_n] = v;
  verif_nd_n++;
  return v;
}

int main(int argc, char** argv) {
  if (argc >= 3 && !strcmp(argv[1], "--replay")) {
    FILE* f = fopen(argv[2], "r"); if (!f) { perror("replay file"); return 2; }
    unsigned long long x; while (replay_n < VERIF_ND_MAX && fscanf(f, "%llu", &x) == 1) replay_vals[replay_n++] = x;
    fclose(f);
    replay_mode = 1; verif_verbose = 1;
    if (setjmp(verif_jmp)) { printf("REPLAY: assumption not satisfied (vacuous)\n"); return 77; }
    harness();
    printf("REPLAY: %s (draws=%u, failed asserts=%d)\n", verif_failed ? "VIOLATION-REPRODUCED" : "no assertion failed", verif_nd_n, verif_failed);
    return verif_failed ? 1 : 0;
  }
  if (argc >= 4 && !strcmp(argv[1], "--random")) {
    uint64_t seed = strtoull(argv[2], 0, 10); long count = atol(argv[3]);
    long nonvac = 0; verif_random_mode = 1;
    for (long i = 0; i < count; i++) {
      rng_state = seed * 0x2545F4914F6CDD1DULL + (uint64_t)i * 0x9E3779B97F4A7C15ULL + 1;
      verif_nd_n = 0; verif_failed = 0; verif_obs = 1469598103934665603ULL;
      if (setjmp(verif_jmp)) { printf("%ld V\n", i); continue; }
      harness();
      nonvac++;
      printf("%ld R %016llx %d %u\n", i, (unsigned long long)verif_obs, verif_failed, verif_nd_n);
    }
    printf("SUMMARY nonvacuous=%ld of %ld\n", nonvac, count);
    return 0;
  }
  fprintf(stderr, "usage: %s --replay file | --random seed count\n", argv[0]);
  return 2;
}
