/* harness-side model of the hash functions (used with -DVERIF_STUB_HASH wrapper TUs):
 * an arbitrary function of (key bytes, length, seed): a fresh nondeterministic value per distinct argument,
 * the same value when the same argument is seen again (functional consistency). */
#ifndef VERIF_HASHMODEL_H
#define VERIF_HASHMODEL_H
#include "harness.h"
#ifndef HM_MAX
#define HM_MAX 8
#endif
#define HM_KEYMAX 16
struct hm_entry { uint8_t key[HM_KEYMAX]; uint64_t len, seed, h1, h2; };
static struct hm_entry hm[HM_MAX];
static unsigned hm_n;        /* distinct arguments seen */
static unsigned hm_calls;    /* calls */
static int hm_last = -1;     /* index of the entry used by the last call */
static int hm_overflow;      /* a key longer than HM_KEYMAX or more than HM_MAX distinct keys */
void verif_hash128(uint8_t* key, uint64_t len, uint64_t seed, uint64_t* h1, uint64_t* h2) {
  hm_calls++;
  if (len > HM_KEYMAX) { hm_overflow = 1; *h1 = 0; *h2 = 0; return; }
  for (unsigned j = 0; j < hm_n; j++) {
    if (hm[j].len != len || hm[j].seed != seed) continue;
    int same = 1;
    for (unsigned b = 0; b < HM_KEYMAX; b++) if (b < len && hm[j].key[b] != key[b]) same = 0;
    if (same) { *h1 = hm[j].h1; *h2 = hm[j].h2; hm_last = (int)j; return; }
  }
  if (hm_n >= HM_MAX) { hm_overflow = 1; *h1 = 0; *h2 = 0; return; }
  struct hm_entry* e = &hm[hm_n];
  for (unsigned b = 0; b < HM_KEYMAX; b++) e->key[b] = b < len ? key[b] : 0;
  e->len = len; e->seed = seed; e->h1 = ND_U64(); e->h2 = ND_U64();
  *h1 = e->h1; *h2 = e->h2; hm_last = (int)hm_n; hm_n++;
}
uint64_t verif_hash64(uint8_t* key, uint64_t len, uint64_t seed) { uint64_t a, b; verif_hash128(key, len, seed, &a, &b); return a; }
static uint64_t hm_key_u64(int j) { uint64_t v = 0; for (int b = 7; b >= 0; b--) v = (v << 8) | hm[j].key[b]; return v; }
#endif
