/* harness-side model of the hash functions (used with -DVERIF_STUB_HASH wrapper TUs):
 * an arbitrary function of (key bytes, length, seed): a fresh nondeterministic value per distinct argument,
 * the same value when the same argument is seen again (functional consistency). */
#ifndef VERIF_HASHMODEL_H
#define VERIF_HASHMODEL_H
#include "harness.h"
#ifndef HM_MAX
#define HM_MAX 8
#endif
#define HM_KEYMAX 16
struct hm_entry { uint64_t k0, k1; uint64_t len, seed, h1, h2; };   /* key bytes packed little-endian into two words */
static struct hm_entry hm[HM_MAX];
static unsigned hm_n;        /* distinct arguments seen */
static unsigned hm_calls;    /* calls */
static int hm_last = -1;     /* index of the entry used by the last call */
static int hm_overflow;      /* a key longer than HM_KEYMAX or more than HM_MAX distinct keys */
void verif_hash128(uint8_t* key, uint64_t len, uint64_t seed, uint64_t* h1, uint64_t* h2) {
  hm_calls++;
  if (len > HM_KEYMAX) { hm_overflow = 1; *h1 = 0; *h2 = 0; return; }
  uint64_t k0 = 0, k1 = 0;
  for (unsigned b = 0; b < 8; b++) { if (b < len) k0 |= (uint64_t)key[b] << (8 * b); if (b + 8 < len) k1 |= (uint64_t)key[b + 8] << (8 * b); }
  /* the table is scanned with a concrete trip count so that symex does not have to unwind on the (symbolic) fill level */
  int found = -1;
  for (unsigned j = 0; j < HM_MAX; j++) if (found < 0 && j < hm_n && hm[j].len == len && hm[j].seed == seed && hm[j].k0 == k0 && hm[j].k1 == k1) found = (int)j;
  if (found >= 0) { *h1 = hm[found].h1; *h2 = hm[found].h2; hm_last = found; return; }
  if (hm_n >= HM_MAX) { hm_overflow = 1; *h1 = 0; *h2 = 0; return; }
  struct hm_entry* e = &hm[hm_n];
  e->k0 = k0; e->k1 = k1; e->len = len; e->seed = seed; e->h1 = ND_U64(); e->h2 = ND_U64();
  *h1 = e->h1; *h2 = e->h2; hm_last = (int)hm_n; hm_n++;
}
uint64_t verif_hash64(uint8_t* key, uint64_t len, uint64_t seed) { uint64_t a, b; verif_hash128(key, len, seed, &a, &b); return a; }
static uint64_t hm_key_u64(int j) { return hm[j].k0; }
#endif
