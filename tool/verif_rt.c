#include "verif_rt.h"
int verif_exc; void* verif_exc_obj; uint32_t verif_exc_sel = 1;
long verif_live_blocks; long verif_live_bytes;
#ifdef VERIF_CBMC
uint64_t verif_nd_log[512]; unsigned verif_nd_n;
#endif
#ifdef VERIF_CBMC
void verif_unreachable(void){ __CPROVER_assert(0, "IR unreachable reached"); __CPROVER_assume(0); }
#else
#include <stdio.h>
void verif_unreachable(void){ fprintf(stderr,"IR unreachable reached\n"); abort(); }
#endif
uint8_t* _Znwm(uint64_t n){ uint8_t* p = malloc(n ? n : 1);
#ifdef VERIF_CBMC
  __CPROVER_assume(p != 0);
#endif
  verif_live_blocks++; return p; }
uint8_t* _Znam(uint64_t n){ return _Znwm(n); }
uint8_t* _ZnwmRKSt9nothrow_t(uint64_t n, uint8_t* tag){ return _Znwm(n); }
uint8_t* _ZnamRKSt9nothrow_t(uint64_t n, uint8_t* tag){ return _Znwm(n); }
void _ZdlPv(uint8_t* p){ if (p) { verif_live_blocks--; free(p);} }
void _ZdaPv(uint8_t* p){ _ZdlPv(p); }
void _ZdlPvm(uint8_t* p, uint64_t n){ _ZdlPv(p); }
static uint8_t verif_exc_buf[64];
uint8_t* __cxa_allocate_exception(uint64_t n){ return verif_exc_buf; }
void __cxa_free_exception(uint8_t* p){}
void __cxa_throw(uint8_t* obj, uint8_t* ti, uint8_t* dtor){ verif_exc = 1; verif_exc_obj = obj; }
uint8_t* __cxa_begin_catch(uint8_t* p){ verif_exc = 0; return p; }
void __cxa_end_catch(void){}
void _ZSt9terminatev(void){ verif_unreachable(); }
void _ZSt17__throw_bad_allocv(void){ verif_exc = 1; }
void _ZSt28__throw_bad_array_new_lengthv(void){ verif_exc = 1; }
void _ZSt20__throw_length_errorPKc(uint8_t* s){ verif_exc = 1; }
void _ZSt24__throw_out_of_range_fmtPKcz(uint8_t* s, ...){ verif_exc = 1; }
void __cxa_rethrow(void){ verif_exc = 1; }
/* function-local statics (single-threaded): first byte of the guard = initialised */
uint32_t __cxa_guard_acquire(uint64_t* g){ return *(uint8_t*)g == 0; }
void __cxa_guard_release(uint64_t* g){ *(uint8_t*)g = 1; }
void __cxa_guard_abort(uint64_t* g){}
void __cxa_pure_virtual(void){ verif_unreachable(); }
void _ZSt25__throw_bad_function_callv(void){ verif_exc = 1; }
