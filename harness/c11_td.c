/* C10 / C11: tdigest<double> images written by the harness from the documented layout (preamble longs, serial version 1, type 20,
 * k, flags; then num_centroids u32, num_buffered u32, min, max, centroids {mean f64, weight u64}, buffered values f64).
 * NC centroids and NB buffered values (concrete), all values symbolic bit patterns of finite doubles.
 * M == SIZE: the reader must accept and report the documented content; M < SIZE: must throw, never read outside the M-byte buffer. */
#include "harness.h"
#include "api.h"
#include "../wrappers/views.h"
static void put64(uint8_t* p, uint64_t v) { for (int i = 0; i < 8; i++) p[i] = (uint8_t)(v >> (8 * i)); }
static void put32(uint8_t* p, uint32_t v) { for (int i = 0; i < 4; i++) p[i] = (uint8_t)(v >> (8 * i)); }
#define SIZE (NC + NB == 0 ? 8 : ((NC + NB == 1 && SINGLE) ? 16 : 32 + 16 * NC + 8 * NB))
void harness(void) {
  uint8_t img[128]; for (int i = 0; i < 128; i++) img[i] = 0;
  uint64_t mn = ND_U64(), mx = ND_U64(); uint64_t tw = 0;
  int empty = (NC + NB == 0), single = (NC + NB == 1 && SINGLE);
  img[0] = (empty || single) ? 1 : 2; img[1] = 1; img[2] = 20; img[3] = 10; img[4] = 0; img[5] = (uint8_t)((empty ? 1 : 0) | (single ? 2 : 0));
  if (single) { put64(img + 8, mn); mx = mn; tw = 1; }
  else if (!empty) {
    put32(img + 8, NC); put32(img + 12, NB); put64(img + 16, mn); put64(img + 24, mx);
    for (int i = 0; i < NC; i++) { uint64_t w = ND_RANGE(1, 1000); put64(img + 32 + 16 * i, ND_U64()); put64(img + 40 + 16 * i, w); tw += w; }
    for (int i = 0; i < NB; i++) put64(img + 32 + 16 * NC + 8 * i, ND_U64());
  }
  const uint64_t m = M;
  uint8_t* buf = malloc(m ? m : 1); ASSUME(buf != 0);
  for (uint64_t i = 0; i < 128; i++) if (i < m) buf[i] = img[i];
  struct gen_view v;
  int rc = w_td_deser(m ? buf : buf + 1, m, (void*)&v);
  OBSERVE(rc);
  if (M < SIZE) { ASSERT(rc == 1, "a strict prefix of a valid image is rejected with an exception"); }
  else {
    ASSERT(rc == 0, "the full image is accepted");
    ASSERT(v.f[4] == 10 && (int)v.f[7] == empty, "k and emptiness as written");
    if (!empty) ASSERT(v.f[2] == mn && v.f[3] == mx, "min / max are the documented fields (bit-exact)");
    if (!empty) ASSERT(v.f[0] == tw + NB, "total weight = sum of centroid weights + number of buffered values");
    ASSERT(v.f[12] == (uint64_t)SIZE, "get_serialized_size_bytes(with_buffer) of the restored sketch == image size");
  }
  free(buf);
  WITNESS();
}
