/* C09: pack_bits_block8 / unpack_bits_block8 round trip for one bit width (-DBITS=n),
 * eight symbolic values below 2^BITS and a SYMBOLIC initial buffer (the serializer re-uses a scratch buffer). */
#include "harness.h"
#include "api.h"
void harness(void) {
  uint8_t bits = BITS;
  uint64_t in[8], out[8]; uint8_t buf[64], ref[64];
  for (int i = 0; i < 8; i++) { in[i] = ND_U64() & ((UINT64_C(1) << bits) - 1); out[i] = ND_U64(); }
  for (int i = 0; i < 64; i++) { buf[i] = ND_U8(); ref[i] = buf[i]; }
  w_pack_block8(in, buf, bits);
  /* bytes beyond the BITS packed bytes are untouched */
  for (int i = bits; i < 64; i++) ASSERT(buf[i] == ref[i], "pack_bits_block8 writes only `bits` bytes");
  w_unpack_block8(out, buf, bits);
  for (int i = 0; i < 8; i++) { ASSERT(out[i] == in[i], "unpack(pack(v)) == v for every value of the block, for any prior buffer content"); OBSERVE(out[i]); }
  /* the packed image does not depend on the prior buffer content: pack again into a zeroed buffer */
  uint8_t z[64]; for (int i = 0; i < 64; i++) z[i] = 0;
  w_pack_block8(in, z, bits);
  for (int i = 0; i < bits; i++) { ASSERT(z[i] == buf[i], "packed bytes independent of prior buffer content"); OBSERVE(buf[i]); }
  WITNESS();
}
