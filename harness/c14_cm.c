/* C14: count_min_sketch<uint64_t> with NHASH rows x NBUCK buckets, per-row hash = harness model.
 * PART 0: merge acceptance: sketches whose seeds differ (symbolic, injected) are refused, equal seeds accepted, self-merge refused.
 * PART 1: NU symbolic (item, weight) updates split between sketches a and b, all of them also fed to c; after a.merge(b) every cell of a
 *         equals the cell of c, total weight is the exact sum, and for a symbolic query item: true total <= estimate <= total weight,
 *         lower <= estimate <= upper. */
#include "hashmodel.h"
#include "api.h"
void harness(void) {
#if PART == 0
  void* a = w_cm_new(NHASH, NBUCK, 1); void* b = w_cm_new(NHASH, NBUCK, 1);
  uint64_t s1 = ND_U64(), s2 = ND_BOOL() ? s1 : ND_U64();
  w_cm_set_seed(a, s1); w_cm_set_seed(b, s2);
  int rc = w_cm_merge(a, b);
  OBSERVE(rc);
  ASSERT(rc == (s1 != s2), "merge is refused iff the seeds differ (same shape)");
  ASSERT(w_cm_merge(a, a) == 1, "self merge refused");
  void* c = w_cm_new(NHASH, NBUCK + 1, 1); w_cm_set_seed(c, s1);
  ASSERT(w_cm_merge(a, c) == 1, "merge with a different number of buckets refused");
  w_cm_delete(a); w_cm_delete(b); w_cm_delete(c);
#else
  void* a = w_cm_new(NHASH, NBUCK, 123); void* b = w_cm_new(NHASH, NBUCK, 123); void* c = w_cm_new(NHASH, NBUCK, 123);
  ASSERT(a && b && c && w_cm_is_empty(a), "construction");
  uint64_t it[NU + 1], w[NU + 1]; uint64_t total = 0;
  for (int i = 0; i < NU; i++) {
    it[i] = VERIF_RANDOM_MODE() ? ND_RANGE(0, 3) : ND_U64(); w[i] = ND_RANGE(0, 1000000);
    ASSERT(w_cm_update((i & 1) ? b : a, it[i], w[i]) == 0 && w_cm_update(c, it[i], w[i]) == 0, "update accepted");
    total += w[i];
  }
  ASSERT(w_cm_merge(a, b) == 0, "merge of compatible sketches accepted");
  for (uint32_t i = 0; i < NHASH * NBUCK; i++) { ASSERT(w_cm_cell(a, i) == w_cm_cell(c, i), "merge is linear: cells equal those of one sketch fed both streams"); OBSERVE(w_cm_cell(a, i)); }
  ASSERT(w_cm_total(a) == total && w_cm_total(c) == total, "total weight is the exact sum of the update weights");
  uint64_t q = VERIF_RANDOM_MODE() ? ND_RANGE(0, 3) : ND_U64(); uint64_t truth = 0;
  for (int i = 0; i < NU; i++) if (it[i] == q) truth += w[i];
  uint64_t est = w_cm_estimate(a, q);
  ASSERT(est >= truth, "count-min never under-estimates");
  ASSERT(est <= total, "estimate at most the total weight");
  ASSERT(w_cm_lower(a, q) <= est && est <= w_cm_upper(a, q), "lower bound <= estimate <= upper bound");
  ASSERT(w_cm_estimate(c, q) == est, "merged sketch and single-stream sketch give the same estimate");
#if NU <= 1
  /* every typed overload hashes the same 8 bytes: the int64 overloads must agree with the uint64 ones */
  ASSERT(w_cm_estimate_i64(a, (int64_t)q) == est && w_cm_lower_i64(a, (int64_t)q) == w_cm_lower(a, q), "int64 overloads of estimate / lower bound agree with the uint64 overloads (the upper bound involves a floating-point product and is compared in one overload only)");
  ASSERT(w_cm_lower_i64(a, (int64_t)q) <= w_cm_estimate_i64(a, (int64_t)q), "lower bound <= estimate through the int64 overload");
#endif
  w_cm_delete(a); w_cm_delete(b); w_cm_delete(c);
#endif
  WITNESS();
}
