/* C07 / C08 (merge bookkeeping): min_k of a kll_sketch is the smallest k of any estimation-mode sketch it has absorbed, directly or
 * through intermediate sketches; it decides the error the sketch publishes (get_normalized_rank_error).
 * C (k=8, 9 items: estimation mode) -> merged into B (k=16) -> merged into A (k=16). NSYM of C's items are symbolic. */
#include "harness.h"
#include "api.h"
#include "randhook.h"
void harness(void) {
  void* c = w_kll_new(8); void* b = w_kll_new(16); void* a = w_kll_new(16);
  for (int i = 0; i < 9; i++) w_kll_update(c, i < NSYM ? (int32_t)ND_U32() : 100 + 7 * i);
  w_kll_update(b, 1); w_kll_update(a, 2);
  ASSERT(w_kll_is_est(c) && w_kll_min_k(c) == 8 && w_kll_min_k(b) == 16, "set-up: C in estimation mode with k = 8");
  ASSERT(w_kll_merge(b, c) == 0 && w_kll_min_k(b) == 8, "B absorbed an estimation-mode k=8 sketch: min_k = 8");
  ASSERT(w_kll_merge(a, b) == 0, "second merge accepted");
  OBSERVE(w_kll_min_k(a));
  ASSERT(w_kll_min_k(a) == 8, "A absorbed B, whose content was compacted with k = 8: min_k = 8 (not B's configured k)");
  ASSERT(w_kll_n(a) == 11 && w_kll_n(b) == 10, "n adds up");
  w_kll_delete(a); w_kll_delete(b); w_kll_delete(c);
  WITNESS();
}
