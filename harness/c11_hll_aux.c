/* C11 (unit level, HLL family): the bytes-path reader of the HLL_4 auxiliary exception table, AuxHashMap::deserialize(bytes, len, lg_k,
 * aux_count, lg_aux_arr_ints, compact?). The table bytes sit in a heap object of exactly LEN bytes (any access past it is a checked
 * failure). COMPACT = 1: aux_count pairs are expected; COMPACT = 0 (updatable image): the whole array of 2^lg_aux_arr_ints ints is expected.
 * aux_count (AUXC) and lg_aux_arr_ints (LGARR) are concrete per query (symbolic header fields did not finish symex); the content is NSYM symbolic
 * pairs (any slot, any value), then concrete pairs (slots 9, 10, ... value 20) up to AUXC pairs, then empty (0) pairs.
 * Claim: whenever LEN is smaller than the bytes the header fields announce, the reader throws and touches nothing outside the buffer;
 * whenever it accepts, the table holds exactly aux_count entries. */
#include "harness.h"
#include "api.h"
#ifndef NSYM
#define NSYM 0
#endif
void harness(void) {
  uint8_t* buf = (uint8_t*)malloc(LEN ? LEN : 1);
  ASSUME(buf != 0);
  for (unsigned i = 0; i < LEN; i++) buf[i] = 0;
  for (unsigned p = 0; p < NSYM && 4 * p + 3 < LEN; p++) {
    uint32_t slot = (uint32_t)ND_RANGE(0, 15), val = (uint32_t)ND_RANGE(1, 63), pair = (val << 26) | slot;
    buf[4 * p] = (uint8_t)pair; buf[4 * p + 1] = (uint8_t)(pair >> 8); buf[4 * p + 2] = (uint8_t)(pair >> 16); buf[4 * p + 3] = (uint8_t)(pair >> 24);
  }
  for (unsigned p = NSYM; p < AUXC && 4 * p + 3 < LEN; p++) { uint32_t pair = (20u << 26) | (9u + p); buf[4 * p] = (uint8_t)pair; buf[4 * p + 1] = 0; buf[4 * p + 2] = 0; buf[4 * p + 3] = (uint8_t)(pair >> 24); }
  uint32_t aux_count = AUXC;
  uint8_t lg_arr = LGARR;          /* 4 or 8 ints: the sizes an lg_k = 4 sketch writes */
  uint32_t count = 0, lg_out = 0;
  int r = w_aux_deser(LEN ? buf : buf, LEN, 4, aux_count, lg_arr, COMPACT, &count, &lg_out);
  uint64_t announced = COMPACT ? 4ull * aux_count : 4ull << lg_arr;
  OBSERVE(r); OBSERVE(count);
  if (LEN < announced) ASSERT(r == 1, "a table shorter than the header fields announce is rejected with an exception");
  if (r == 0) ASSERT(count == aux_count, "an accepted table holds exactly aux_count entries");
  free(buf);
  WITNESS();
}
