/* C05 (unit level: the sparse-mode representation of the coupon matrix): the CPC pair table u32_table with lg_k = 4 items (row << 6 | column,
 * 10 valid bits). A concrete prefix of distinct pairs (PREFIX; chosen so that probe clusters wrap around the end of the table and so that the
 * next insertion crosses the 3/4 upsize trigger or the next deletion the 1/4 downsize trigger) is inserted, then ONE step with a SYMBOLIC pair:
 * OP 0 maybe_insert, OP 1 maybe_delete. Afterwards the table is exactly the set it should be: the step reports novelty / presence correctly,
 * every other pair of the prefix is still found through the table's own probe sequence, the symbolic pair is present (absent), the item count
 * and the number of occupied slots equal the size of the set, through rebuilds (grow / shrink) and the re-insertion of a deleted slot's cluster. */
#include "harness.h"
#include "api.h"
static const uint32_t prefix[] = { PREFIX 0xffffffffu };
#define NP ((int)(sizeof(prefix) / sizeof(prefix[0])) - 1)
void harness(void) {
  void* t = w_t32_new(LG, 10);
  ASSERT(t != 0, "construction");
  for (int i = 0; i < NP; i++) ASSERT(w_t32_maybe_insert(t, prefix[i]) == 1, "prefix pair is new");
  ASSERT(w_t32_num_items(t) == NP, "prefix inserted");
  uint32_t x = (uint32_t)ND_RANGE(0, 1023);
  int was = 0; for (int i = 0; i < NP; i++) if (prefix[i] == x) was = 1;
#if OP == 0
  int r = w_t32_maybe_insert(t, x);
  ASSERT(r == (was ? 0 : 1), "maybe_insert reports whether the pair is new");
  const uint32_t size = (uint32_t)NP + (was ? 0 : 1);
  ASSERT(w_t32_contains(t, x) == 1, "the offered pair is in the table afterwards");
  for (int i = 0; i < NP; i++) ASSERT(w_t32_contains(t, prefix[i]) == 1, "every earlier pair is still found");
#else
  int r = w_t32_maybe_delete(t, x);
  ASSERT(r == (was ? 1 : 0), "maybe_delete reports whether the pair was present");
  const uint32_t size = (uint32_t)NP - (was ? 1 : 0);
  ASSERT(w_t32_contains(t, x) == 0, "the deleted pair is not in the table afterwards");
  for (int i = 0; i < NP; i++) if (prefix[i] != x) ASSERT(w_t32_contains(t, prefix[i]) == 1, "every other pair is still found (the cluster behind the freed slot is re-inserted)");
#endif
  ASSERT(w_t32_num_items(t) == size && w_t32_occupied(t) == size, "item count == occupied slots == size of the pair set");
  OBSERVE(r); OBSERVE(w_t32_lg_size(t));
  w_t32_delete(t);
  WITNESS();
}
