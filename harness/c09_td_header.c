/* C09: tdigest<double>::serialize(header, with_buffer): the vector has header + get_serialized_size_bytes() bytes, the image after the
 * reserved header equals the header-less image, and the write stays inside the vector (cbmc bounds checks on the real serializer). */
#include "harness.h"
#include "api.h"
void harness(void) {
  uint64_t vals[NV + 1];
  for (int i = 0; i < NV; i++) { vals[i] = ND_U64(); double d = verif_bits_to_double(vals[i]); ASSUME(d == d && d - d == 0.0); }   /* finite */
  uint8_t a[160], b[160]; uint64_t adv0 = 0, adv1 = 0;
  for (int i = 0; i < 160; i++) { a[i] = 0; b[i] = 0; }
  int64_t s0 = w_td_serialize(a, 160, vals, NV, 0, &adv0);
  int64_t s1 = w_td_serialize(b, 160, vals, NV, HEADER, &adv1);
  OBSERVE(s0); OBSERVE(s1);
  ASSERT(s0 > 0 && (uint64_t)s0 == adv0, "serialize(0) returns get_serialized_size_bytes() bytes");
  ASSERT(s1 == s0 + HEADER, "serialize(h) returns h + get_serialized_size_bytes() bytes");
  for (int i = 0; i < 120; i++) if (i < s0) ASSERT(b[HEADER + i] == a[i], "the image after the reserved header equals the header-less image");
  WITNESS();
}
