/* C12 (merge that purges during the replay of the other sketch): 8-slot maps. Sketch A holds NA concrete items (concrete weights), sketch B NB others
 * (OV of them shared); both carry a SYMBOLIC accumulated offset (what their earlier purges left behind, injected). merge(B into A) overflows
 * A's map, so update() purges while B's items are replayed. The clauses that do not need the history behind the injected offsets:
 *   (i)  maximum error >= offset_A + offset_B, and the excess (what the purges of this merge subtracted) is positive;
 *   (ii) for every item, tracked or not: upper - lower == maximum error, lower <= weight offered in this history <= lower + that excess
 *        (no weight is lost without being accounted for in the maximum error). */
#include "harness.h"
#include "api.h"
#define NI (NA + NB)
void harness(void) {
  void* a = w_fi_new(3, 3); void* b = w_fi_new(3, 3);
  uint64_t truth[NI + 2]; for (int i = 0; i <= NI + 1; i++) truth[i] = 0;
  for (int i = 0; i < NA; i++) { uint64_t w = 13 + 10 * (uint64_t)i; ASSERT(w_fi_update(a, 1 + i, w) == 0, "update accepted"); truth[1 + i] += w; }
  for (int i = 0; i < NB; i++) { uint64_t w = 7 + 5 * (uint64_t)i; uint64_t it = NA - OV + 1 + i; w_fi_update(b, it, w); truth[it] += w; }
  ASSERT(w_fi_max_error(a) == 0 && w_fi_max_error(b) == 0, "no purge before the merge");
  uint64_t oa = ND_RANGE(0, 1000000), ob = ND_RANGE(0, 1000000);
  w_fi_set_offset(a, oa); w_fi_set_offset(b, ob);
  ASSERT(w_fi_merge(a, b) == 0, "merge accepted");
  uint64_t me = w_fi_max_error(a);
  ASSERT(me >= oa + ob, "maximum error after a merge is at least the sum of the two accumulated offsets");
  uint64_t purged = me - (oa + ob);
  ASSERT(purged > 0, "this merge purged during the replay (the shape was chosen for it)");
  for (uint64_t it = 1; it <= NI + 1; it++) {
    uint64_t lb = w_fi_lower(a, it), ub = w_fi_upper(a, it);
    ASSERT(ub - lb == me, "upper - lower == reported maximum error");
    ASSERT(lb <= truth[it], "lower bound <= weight offered in this history");
    ASSERT(lb + purged >= truth[it], "weight offered in this history <= lower bound + what the purges of this merge subtracted (nothing is lost unaccounted)");
  }
  OBSERVE(me); OBSERVE(w_fi_active(a));
  w_fi_delete(a); w_fi_delete(b);
  WITNESS();
}
