/* C05 (coupon matrix clauses): cpc_sketch(lg_k = 4) fed a concrete prefix of (row, col) pairs and then ONE symbolic pair through the
 * real row_col_update: the coupon count equals the number of distinct pairs (population count of a 16 x 64 oracle matrix), the internal
 * representation (sparse table / 8-column window + surprising values) reconstructs exactly that matrix, validate() agrees. */
#include "harness.h"
#include "api.h"
#define K 16
static const uint32_t prefix[] = { PREFIX 0xffffffffu };
static uint64_t popc(uint64_t x) { uint64_t c = 0; for (int i = 0; i < 64; i++) c += (x >> i) & 1; return c; }
void harness(void) {
  void* s = w_cpc_new(4);
  ASSERT(s && w_cpc_is_empty(s) && w_cpc_num_coupons(s) == 0, "fresh sketch");
  uint64_t oracle[K]; for (int i = 0; i < K; i++) oracle[i] = 0;
  for (unsigned c = 0; prefix[c] != 0xffffffffu; c++) { ASSERT(w_cpc_row_col(s, prefix[c]) == 0, "prefix update accepted"); oracle[prefix[c] >> 6] |= (uint64_t)1 << (prefix[c] & 63); }
  uint32_t row = (uint32_t)ND_RANGE(0, K - 1), col = (uint32_t)ND_RANGE(0, 63);
  ASSERT(w_cpc_row_col(s, (row << 6) | col) == 0, "update accepted");
  oracle[row] |= (uint64_t)1 << col;
  uint64_t cnt = 0; for (int i = 0; i < K; i++) cnt += popc(oracle[i]);
  OBSERVE(cnt);
  ASSERT(w_cpc_num_coupons(s) == cnt, "coupon count == number of distinct (row, column) pairs");
  uint64_t m[K]; ASSERT(w_cpc_matrix(s, m, K) == 0, "bit matrix reconstruction accepted");
  for (int i = 0; i < K; i++) { ASSERT(m[i] == oracle[i], "the internal representation reconstructs exactly the coupon matrix"); OBSERVE(m[i]); }
  ASSERT(w_cpc_validate(s) == 1, "validate() agrees");
  w_cpc_delete(s);
  WITNESS();
}
