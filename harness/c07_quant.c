/* C07 / C08: quantile sketch (FAM = kll | qs | req) driven through the public API:
 *   sketch A <- NA symbolic int32 items, sketch B <- NB items, optional merge of B into A (MERGE=1), then every observable is compared
 *   with the exact input multiset. The internal coin (hook) is a harness function: all outcomes are explored (C07), and in the
 *   C08 variant (COINS = c > 0) the whole history is run once per coin schedule 0..2^c-1 inside the same query and the
 *   weighted rank of a symbolic query point summed over the schedules must equal 2^c * true rank; the number of coin requests
 *   must be the same c in every run. */
#define VERIF_CUSTOM_COIN
#include "harness.h"
#include "api.h"
#include "randhook.h"
#define CAT_(a, b, c) a##b##c
#define CAT(a, b, c) CAT_(a, b, c)
#define F(name) CAT(w_, FAM, name)
#ifndef COINS
#define COINS 0
#endif
#define NT (NA + (MERGE ? NB : 0))
#define CAP 40
static unsigned coin_sched, coin_used; static int coin_fixed;
uint32_t datasketches_verif_random_bit(void) { unsigned i = coin_used++; if (coin_fixed) return (coin_sched >> i) & 1u; return (uint32_t)ND_BOOL(); }
static uint64_t run(const int32_t* in, int32_t q, int check, uint32_t* retained_out) {
  void* a = F(_new)(KK); void* b = 0;
  for (int i = 0; i < NA; i++) F(_update)(a, in[i]);
#if MERGE
  b = F(_new)(KK2);
  for (int i = 0; i < NB; i++) F(_update)(b, in[NA + i]);
  int mr = F(_merge)(a, b);
  if (check) ASSERT(mr == 0, "merge accepted");
#endif
  int32_t it[CAP]; uint64_t w[CAP];
  int32_t n = F(_items)(a, it, w, CAP);
  uint64_t below = 0, total = 0;
  for (int i = 0; i < CAP; i++) if (i < n) { total += w[i]; if (it[i] < q) below += w[i]; }
  if (check) {
    ASSERT(F(_n)(a) == NT, "n == number of accepted items");
    ASSERT(n >= 0 && (uint32_t)n == F(_num_retained)(a) && n <= CAP, "iteration yields exactly num_retained entries");
    ASSERT(total == NT, "retained weights sum to n");
    ASSERT((int)F(_is_empty)(a) == (NT == 0), "emptiness");
    int32_t mn = 0, mx = 0; int r1 = F(_min)(a, &mn), r2 = F(_max)(a, &mx);
    if (NT == 0) ASSERT(r1 == 1 && r2 == 1 && n == 0, "empty sketch: min/max queries are rejected, nothing to iterate");
    else {
      int32_t emn = in[0], emx = in[0];
      for (int i = 1; i < NT; i++) { if (in[i] < emn) emn = in[i]; if (in[i] > emx) emx = in[i]; }
      ASSERT(r1 == 0 && r2 == 0 && mn == emn && mx == emx, "min and max are exactly the stream extremes");
      for (int i = 0; i < CAP; i++) if (i < n) { int from = 0; for (int j = 0; j < NT; j++) if (in[j] == it[i]) from = 1; ASSERT(from && w[i] >= 1, "every retained item is an input item with positive weight"); }
#ifndef LIGHT
      /* sorted view: ascending, cumulative weight ends at n */
      int32_t si[CAP]; uint64_t cw[CAP]; int32_t sn = F(_sorted)(a, si, cw, CAP);
      ASSERT(sn == n, "sorted view has num_retained entries");
      for (int i = 1; i < CAP; i++) if (i < sn) ASSERT(si[i - 1] <= si[i] && cw[i - 1] < cw[i], "sorted view ascending with increasing cumulative weight");
      if (sn > 0) ASSERT(cw[sn - 1] == NT, "total cumulative weight == n");
      /* rank: consistent with the retained weights, monotone, inclusive >= exclusive */
      double rk = 0, rki = 0; int rr = F(_rank)(a, q, 0, &rk), rri = F(_rank)(a, q, 1, &rki);
      ASSERT(rr == 0 && rri == 0, "rank query accepted on a non-empty sketch");
      ASSERT(rk == (double)below / (double)NT, "exclusive rank == weight of retained items below the point / n");
      ASSERT(rki >= rk && rki <= 1.0 && rk >= 0.0, "0 <= exclusive rank <= inclusive rank <= 1");
#endif
      if (!F(_is_est)(a)) { uint64_t tb = 0; for (int j = 0; j < NT; j++) if (in[j] < q) tb++; ASSERT(below == tb, "exact mode: rank equals the true rank of the input multiset"); }
      OBSERVE(mn); OBSERVE(mx);
    }
    OBSERVE(n); OBSERVE(total);
  }
  if (retained_out) *retained_out = (uint32_t)n;
  F(_delete)(a); if (b) F(_delete)(b);
  return below;
}
void harness(void) {
  int32_t in[NT + 1]; for (int i = 0; i < NT; i++) in[i] = (int32_t)ND_U32();
  int32_t q = (int32_t)ND_U32();
#if COINS == 0
  uint32_t ret; coin_fixed = 0; coin_used = 0;
  run(in, q, 1, &ret);
  ASSERT(ret <= MAXRET, "retained count within the sketch's space bound for this k and n");
#else
  uint64_t tb = 0; for (int j = 0; j < NT; j++) if (in[j] < q) tb++;
  uint64_t sum = 0; coin_fixed = 1;
  for (unsigned s = 0; s < (1u << COINS); s++) {
    coin_sched = s; coin_used = 0;
    sum += run(in, q, 0, 0);
    ASSERT(coin_used == COINS, "the number of coin flips does not depend on their outcomes");
  }
  ASSERT(sum == ((uint64_t)tb << COINS), "weighted rank averaged over all coin outcomes equals the true rank exactly");
#endif
  WITNESS();
}
