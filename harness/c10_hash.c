/* C10: the library's MurmurHash3_x64_128 (64-bit seed variant) and XXHash64 against reference implementations written here from the
 * published algorithms (Appleby's MurmurHash3 x64_128; Collet's XXH64), for EVERY key of LEN bytes (concrete per query) and every seed. */
#include "harness.h"
#include "api.h"
#include "verif_rt.h"
#define MUL(a, b) VERIF_MUL64(a, b)
static uint64_t rotl(uint64_t x, int r) { return (x << r) | (x >> (64 - r)); }
static uint64_t rd64(const uint8_t* p) { uint64_t v = 0; for (int i = 7; i >= 0; i--) v = (v << 8) | p[i]; return v; }
static uint32_t rd32(const uint8_t* p) { uint32_t v = 0; for (int i = 3; i >= 0; i--) v = (v << 8) | p[i]; return v; }
static uint64_t fmix64(uint64_t k) { k ^= k >> 33; k = MUL(k, 0xff51afd7ed558ccdULL); k ^= k >> 33; k = MUL(k, 0xc4ceb9fe1a85ec53ULL); k ^= k >> 33; return k; }
static void ref_murmur(const uint8_t* data, int len, uint64_t seed, uint64_t* o1, uint64_t* o2) {
  const uint64_t c1 = 0x87c37b91114253d5ULL, c2 = 0x4cf5ad432745937fULL;
  uint64_t h1 = seed, h2 = seed; int nb = len / 16;
  for (int i = 0; i < nb; i++) {
    uint64_t k1 = rd64(data + 16 * i), k2 = rd64(data + 16 * i + 8);
    k1 = MUL(k1, c1); k1 = rotl(k1, 31); k1 = MUL(k1, c2); h1 ^= k1; h1 = rotl(h1, 27); h1 += h2; h1 = h1 * 5 + 0x52dce729;
    k2 = MUL(k2, c2); k2 = rotl(k2, 33); k2 = MUL(k2, c1); h2 ^= k2; h2 = rotl(h2, 31); h2 += h1; h2 = h2 * 5 + 0x38495ab5;
  }
  const uint8_t* tail = data + nb * 16; uint64_t k1 = 0, k2 = 0; int t = len & 15;
  for (int i = 14; i >= 8; i--) if (t > i) k2 ^= (uint64_t)tail[i] << (8 * (i - 8));
  if (t > 8) { k2 = MUL(k2, c2); k2 = rotl(k2, 33); k2 = MUL(k2, c1); h2 ^= k2; }
  for (int i = 7; i >= 0; i--) if (t > i) k1 ^= (uint64_t)tail[i] << (8 * i);
  if (t > 0) { k1 = MUL(k1, c1); k1 = rotl(k1, 31); k1 = MUL(k1, c2); h1 ^= k1; }
  h1 ^= (uint64_t)len; h2 ^= (uint64_t)len; h1 += h2; h2 += h1; h1 = fmix64(h1); h2 = fmix64(h2); h1 += h2; h2 += h1;
  *o1 = h1; *o2 = h2;
}
#define P1 11400714785074694791ULL
#define P2 14029467366897019727ULL
#define P3 1609587929392839161ULL
#define P4 9650029242287828579ULL
#define P5 2870177450012600261ULL
static uint64_t xround(uint64_t acc, uint64_t in) { acc += MUL(in, P2); acc = rotl(acc, 31); return MUL(acc, P1); }
static uint64_t xmerge(uint64_t acc, uint64_t v) { v = xround(0, v); acc ^= v; return MUL(acc, P1) + P4; }
static uint64_t ref_xxh64(const uint8_t* p, int len, uint64_t seed) {
  uint64_t h; int i = 0;
  if (len >= 32) {
    uint64_t v1 = seed + P1 + P2, v2 = seed + P2, v3 = seed, v4 = seed - P1;
    for (; i + 32 <= len; i += 32) { v1 = xround(v1, rd64(p + i)); v2 = xround(v2, rd64(p + i + 8)); v3 = xround(v3, rd64(p + i + 16)); v4 = xround(v4, rd64(p + i + 24)); }
    h = rotl(v1, 1) + rotl(v2, 7) + rotl(v3, 12) + rotl(v4, 18);
    h = xmerge(h, v1); h = xmerge(h, v2); h = xmerge(h, v3); h = xmerge(h, v4);
  } else h = seed + P5;
  h += (uint64_t)len;
  for (; i + 8 <= len; i += 8) { h ^= xround(0, rd64(p + i)); h = MUL(rotl(h, 27), P1) + P4; }
  if (i + 4 <= len) { h ^= MUL((uint64_t)rd32(p + i), P1); h = MUL(rotl(h, 23), P2) + P3; i += 4; }
  for (; i < len; i++) { h ^= MUL((uint64_t)p[i], P5); h = MUL(rotl(h, 11), P1); }
  h ^= h >> 33; h = MUL(h, P2); h ^= h >> 29; h = MUL(h, P3); h ^= h >> 32;
  return h;
}
void harness(void) {
  uint8_t key[LEN + 1]; for (int i = 0; i < LEN; i++) key[i] = ND_U8();
  uint64_t seed = ND_U64();
#if WHICH == 0
  uint64_t a1, a2, b1, b2; w_murmur(key, LEN, seed, &a1, &a2); ref_murmur(key, LEN, seed, &b1, &b2);
  OBSERVE(a1); OBSERVE(a2);
  ASSERT(a1 == b1 && a2 == b2, "MurmurHash3_x64_128 equals the published algorithm (64-bit seed in both lanes) for every key of this length and every seed");
#elif WHICH == 1
  uint64_t a = w_xxhash(key, LEN, seed), b = ref_xxh64(key, LEN, seed);
  OBSERVE(a);
  ASSERT(a == b, "XXHash64 equals the published XXH64 algorithm for every key of this length and every seed");
#else
  /* seed hash: 16 low bits of murmur(seed as 8 little-endian bytes, seed 0) */
  uint8_t sb[8]; for (int i = 0; i < 8; i++) sb[i] = (uint8_t)(seed >> (8 * i));
  uint64_t b1, b2; ref_murmur(sb, 8, 0, &b1, &b2);
  uint16_t sh = w_seed_hash(seed);
  ASSERT(sh == (uint16_t)(b1 & 0xffff), "compute_seed_hash = low 16 bits of MurmurHash3(seed bytes, 0)");
#endif
  WITNESS();
}
