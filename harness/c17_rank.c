/* C17 (rank clause on singleton centroids with CONCRETE means — the interpolation then divides by constants — and a SYMBOLIC query value):
 * tdigest<double>(k = 10) with the injected centroid list MEANS (weight 1 each), min / max = first / last mean. For every pair of finite values
 * v1 <= v2: get_rank is a number in [0, 1], rank(v) = 0 below min and 1 above max, and rank(v1) <= rank(v2) (non-decreasing); NaN is refused. */
#include "harness.h"
#include "api.h"
static const double means[] = { MEANS };
#define NC ((int)(sizeof(means) / sizeof(means[0])))
static int finite_bits(uint64_t b) { return ((b >> 52) & 0x7ff) != 0x7ff; }
void harness(void) {
  void* s = w_td_new(10);
  uint64_t mb[NC], w[NC];
  for (int i = 0; i < NC; i++) { mb[i] = verif_double_to_bits(means[i]); w[i] = 1; }
  ASSERT(s != 0 && w_td_inject(s, NC, mb, w, mb[0], mb[NC - 1]) == 0, "state injected");
  uint64_t b1 = ND_U64(), b2 = ND_U64();
  if (VERIF_RANDOM_MODE()) { b1 = verif_double_to_bits(means[0] - 1.0 + (double)(b1 % 1000) * (means[NC - 1] - means[0] + 2.0) / 1000.0); b2 = verif_double_to_bits(verif_bits_to_double(b1) + (double)(b2 % 100) / 50.0); }
  ASSUME(finite_bits(b1) && finite_bits(b2));
  double v1 = verif_bits_to_double(b1), v2 = verif_bits_to_double(b2);
  ASSUME(v1 <= v2);
  uint64_t r1b = 0, r2b = 0;
  ASSERT(w_td_rank(s, b1, &r1b) == 0 && w_td_rank(s, b2, &r2b) == 0, "rank of a finite value is defined");
  double r1 = verif_bits_to_double(r1b), r2 = verif_bits_to_double(r2b);
  ASSERT(r1 == r1 && r1 >= 0.0 && r1 <= 1.0 && r2 == r2 && r2 >= 0.0 && r2 <= 1.0, "rank is a number in [0, 1]");
  if (v1 < means[0]) ASSERT(r1 == 0.0, "rank below min is 0");
  if (v2 > means[NC - 1]) ASSERT(r2 == 1.0, "rank above max is 1");
  ASSERT(r1 <= r2, "rank is non-decreasing in the value");
  uint64_t d = 0; ASSERT(w_td_rank(s, 0x7ff8000000000000ULL, &d) == 1, "rank of NaN is refused");
  OBSERVE(r1b); OBSERVE(r2b);
  w_td_delete(s);
  WITNESS();
}
