/* C16 (exact-mode clauses): var_opt_sketch<uint32>(k = KK) fed NU <= k updates with symbolic items and symbolic weight bit patterns:
 * weights that are negative, NaN or infinite are refused with an exception, zero weights are ignored, every other update is counted in n;
 * while n <= k the sketch holds exactly n samples, each an input item with its exact input weight (bit for bit), in arrival order. */
#include "harness.h"
#include "api.h"
#include "randhook.h"
static int classify(uint64_t b) {   /* 0 accepted, 1 refused (negative / NaN / inf), 2 ignored (zero) */
  uint64_t e = (b >> 52) & 0x7ff, m = b & 0xfffffffffffffULL;
  if (e == 0x7ff) return 1;                     /* inf or NaN, any sign */
  if ((b << 1) == 0) return 2;                  /* +0.0 / -0.0 */
  if (b >> 63) return 1;                        /* negative */
  return 0;
}
void harness(void) {
  void* s = w_vo_new(KK);
  ASSERT(s && w_vo_is_empty(s) && w_vo_n(s) == 0 && w_vo_k(s) == KK, "fresh sketch");
  uint32_t it[NU + 1]; uint64_t wb[NU + 1]; uint32_t acc = 0;
  for (int i = 0; i < NU; i++) {
    uint32_t item = ND_U32(); uint64_t b = ND_U64(); int c = classify(b);
    int rc = w_vo_update(s, item, b);
    ASSERT(rc == (c == 1), "negative / NaN / infinite weights are refused, all others accepted");
    if (c == 0) { it[acc] = item; wb[acc] = b; acc++; }
  }
  ASSERT(w_vo_n(s) == acc, "n == number of accepted positive-weight updates");
  ASSERT(w_vo_num_samples(s) == acc, "exact mode: min(n, k) = n samples held");
  uint32_t oi[NU + 1]; uint64_t ow[NU + 1]; int32_t cnt = w_vo_items(s, oi, ow, NU + 1);
  ASSERT(cnt == (int32_t)acc, "iteration yields num_samples entries");
  for (uint32_t i = 0; i < NU; i++) if (i < acc) { ASSERT(oi[i] == it[i] && ow[i] == wb[i], "each sample is an input item with its exact input weight, in arrival order"); OBSERVE(oi[i]); }
  w_vo_delete(s);
  WITNESS();
}
