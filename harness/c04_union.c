/* C04: hll_union(lg_max_k = LGMAX) fed two HLL-mode sketches (started full-size) of lg_k LG1 / LG2 and register width T1 / T2, each
 * holding one symbolic coupon (slot address + value, fed to the sketch's register array); optionally in the other order (SWAP). The result's lg_k is min(LGMAX, LG1, LG2) and
 * its registers are the per-slot maxima of both items folded to that many slots: nothing offered is lost. */
#include "hashmodel.h"
#include "api.h"
#define MIN(a, b) ((a) < (b) ? (a) : (b))
static uint32_t clz64(uint64_t x) { uint32_t n = 0; for (int i = 63; i >= 0; i--) { if ((x >> i) & 1) break; n++; } return n; }
void harness(void) {
  void* s1 = w_hs_new(LG1, T1, 1); void* s2 = w_hs_new(LG2, T2, 1);
  /* one symbolic coupon per input: 26-bit slot address (folded by each sketch to its own size) and 6-bit value */
  uint32_t c1 = ((uint32_t)ND_RANGE(1, 63) << 26) | (uint32_t)ND_RANGE(0, 0x3ffffff), c2 = ((uint32_t)ND_RANGE(1, 63) << 26) | (uint32_t)ND_RANGE(0, 0x3ffffff);
  ASSERT(w_hs_coupon8(s1, c1) == 0 && w_hs_coupon8(s2, c2) == 0, "coupon updates accepted");
  ASSERT(w_hs_mode(s1) == 2 && w_hs_mode(s2) == 2, "both inputs in HLL mode");
  void* u = w_hu_new(LGMAX);
#ifdef SWAP
  ASSERT(w_hu_update(u, s2) == 0 && w_hu_update(u, s1) == 0, "union updates accepted");
#else
  ASSERT(w_hu_update(u, s1) == 0 && w_hu_update(u, s2) == 0, "union updates accepted");
#endif
  void* r = w_hu_result(u, 2);
  ASSERT(r != 0, "get_result accepted");
  const uint32_t lgr = MIN(LGMAX, MIN(LG1, LG2)), kr = 1u << lgr;
  ASSERT(w_hs_lg_k(r) == lgr && w_hu_lg_k(u) == lgr, "result lg_k = min(lg_max_k, lg_k of every HLL-mode input)");
  uint8_t oracle[64]; for (int i = 0; i < 64; i++) oracle[i] = 0;
  { uint32_t cs[2] = { c1, c2 };
    for (unsigned j = 0; j < 2; j++) { uint32_t slot = (cs[j] & 0x3ffffff) & (kr - 1), val = cs[j] >> 26; if (val > oracle[slot]) oracle[slot] = (uint8_t)val; } }
  for (uint32_t i = 0; i < 64; i++) if (i < kr) { ASSERT(w_hs_value(r, i) == oracle[i], "result register == per-slot max over everything offered (folded to the result size)"); OBSERVE(oracle[i]); }
  w_hs_delete(s1); w_hs_delete(s2); w_hs_delete(r); w_hu_delete(u);
  WITNESS();
}
