/* C19 (value semantics + allocation balance) for FAM = kll | qs with int32 items and std::allocator:
 * a <- NA symbolic items; SCRIPT (concrete): 0 copy-construct, 1 move-construct, 2 copy-assign onto a used sketch, 3 move-assign,
 * 4 self-assign. The copy must be observationally equal to the source (n, min, max, retained (item, weight) pairs in order) and stay so
 * after the source is updated / destroyed; a moved-from object must be destructible and assignable; when every object is destroyed,
 * every block obtained from operator new has been released (counted by the cbmc runtime; the real code's frees are also checked by
 * cbmc for double free / use after free). */
#define VERIF_CUSTOM_COIN
#include "harness.h"
#include "api.h"
#include "randhook.h"
uint32_t datasketches_verif_random_bit(void) { return (uint32_t)ND_BOOL(); }
#if VERIF_IS_CBMC
extern long verif_live_blocks;
#define LIVE() verif_live_blocks
#else
#define LIVE() 0
#endif
#define CAT_(a, b, c) a##b##c
#define CAT(a, b, c) CAT_(a, b, c)
#define F(name) CAT(w_, FAM, name)
#define CAP 16
struct snap { uint64_t n; int32_t cnt; int32_t it[CAP]; uint64_t w[CAP]; int32_t mn, mx; int rmn, rmx; };
static void take(void* s, struct snap* p) { p->n = F(_n)(s); p->cnt = F(_items)(s, p->it, p->w, CAP); p->mn = 0; p->mx = 0; p->rmn = F(_min)(s, &p->mn); p->rmx = F(_max)(s, &p->mx); }
static int same(const struct snap* a, const struct snap* b) {
  if (a->n != b->n || a->cnt != b->cnt || a->rmn != b->rmn || a->rmx != b->rmx) return 0;
  if (a->rmn == 0 && (a->mn != b->mn || a->mx != b->mx)) return 0;
  for (int i = 0; i < CAP; i++) if (i < a->cnt && (a->it[i] != b->it[i] || a->w[i] != b->w[i])) return 0;
  return 1;
}
void harness(void) {
  long live0 = LIVE();
  void* a = F(_new)(KK);
  for (int i = 0; i < NA; i++) F(_update)(a, (int32_t)ND_U32());
  struct snap sa, sb, sb2; take(a, &sa);
  void* b = 0;
#if SCRIPT == 0
  b = F(_copy)(a); ASSERT(b != 0, "copy construction");
#elif SCRIPT == 1
  b = F(_move)(a); ASSERT(b != 0, "move construction");
#elif SCRIPT == 2
  b = F(_new)(KK); F(_update)(b, 7); F(_update)(b, 9); ASSERT(F(_assign)(b, a) == 0, "copy assignment");
#elif SCRIPT == 3
  b = F(_new)(KK); F(_update)(b, 7); ASSERT(F(_move_assign)(b, a) == 0, "move assignment");
#else
  b = F(_copy)(a); ASSERT(F(_assign)(b, b) == 0, "self assignment");
#endif
  take(b, &sb);
  ASSERT(same(&sa, &sb), "copy / moved-to object is observationally equal to the source state");
  /* independence: mutate (or, after a move, re-assign and mutate) the source; the other object must not change */
#if SCRIPT == 1 || SCRIPT == 3
  { void* t = F(_new)(KK); F(_update)(t, 1); ASSERT(F(_assign)(a, t) == 0, "a moved-from object is assignable"); F(_delete)(t); }
#endif
  F(_update)(a, (int32_t)ND_U32());
  take(b, &sb2);
  ASSERT(same(&sb, &sb2), "the copy is independent of later changes to the source");
  F(_delete)(a);
  take(b, &sb2);
  ASSERT(same(&sb, &sb2), "the copy survives destruction of the source");
  F(_delete)(b);
  ASSERT(LIVE() == live0, "when the last object dies nothing remains allocated");
  WITNESS();
}
