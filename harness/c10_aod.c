/* C10 (array-of-doubles tuple family, bytes path): the image the real serializer writes for a compact_array_tuple_sketch built from parts
 * (NE entries, NV values each; theta, emptiness, order flag, keys and value bit patterns symbolic) is byte for byte the documented layout
 *   0 preamble longs = 1 | 1 serial version = 1 | 2 family = 9 | 3 type = 3 | 4 flags (bit 2 empty, bit 3 has entries, bit 4 ordered) | 5 num values
 *   6-7 seed hash | 8-15 theta | [16-19 entry count | 20-23 unused | keys, 8 bytes each | values, 8 bytes each, entry by entry]   (little endian)
 * and a reader written from that layout (this harness) recovers what the API reports; the real reader recovers the same sketch. */
#include "harness.h"
#include "api.h"
#define MAX_THETA 0x7fffffffffffffffULL
#define SEED 9001ULL
static uint64_t le(const uint8_t* p, int n) { uint64_t v = 0; for (int i = 0; i < n; i++) v |= (uint64_t)p[i] << (8 * i); return v; }
void harness(void) {
  uint16_t sh = w_seed_hash(SEED);
  uint64_t keys[NE + 1], vals[NE * NV + 1];
  int is_empty = (NE == 0) ? ND_BOOL() : 0, ordered = ND_BOOL();
  uint64_t theta = ND_RANGE(1, MAX_THETA); if (is_empty) theta = MAX_THETA;
  for (int i = 0; i < NE; i++) { keys[i] = ND_RANGE(1, MAX_THETA - 1); ASSUME(keys[i] < theta); for (int j = 0; j < i; j++) ASSUME(ordered ? keys[j] < keys[i] : keys[j] != keys[i]); }
  for (int i = 0; i < NE * NV; i++) vals[i] = ND_U64();
  void* c = w_aod_make((uint8_t)is_empty, (uint8_t)ordered, sh, theta, keys, vals, NE, NV);
  ASSERT(c != 0, "sketch built from parts");
  uint8_t img[128]; for (int i = 0; i < 128; i++) img[i] = 0xA5;
  int64_t size = w_aod_serialize(c, img, 128);
  const int64_t want = 16 + (NE > 0 ? 8 + NE * (8 + 8 * NV) : 0);
  OBSERVE(size);
  ASSERT(size == want, "image size == 16 + (entries ? 8 + entries * (8 + 8 * num_values) : 0)");
  ASSERT(img[0] == 1 && img[1] == 1 && img[2] == 9 && img[3] == 3, "preamble longs, serial version, family id, sketch type");
  ASSERT(((img[4] >> 2) & 1) == (unsigned)w_aod_is_empty(c) && ((img[4] >> 2) & 1) == (unsigned)is_empty, "flag bit 2 == is_empty() (a sketch in estimation mode with no retained entry is NOT empty)");
  ASSERT(((img[4] >> 3) & 1) == (NE > 0), "flag bit 3 == has entries");
  ASSERT(((img[4] >> 4) & 1) == (unsigned)w_aod_is_ordered(c), "flag bit 4 == is_ordered()");
  ASSERT((img[4] & 0xe3) == 0, "no other flag bit set");
  ASSERT(img[5] == NV && le(img + 6, 2) == sh, "num values, seed hash");
  ASSERT(le(img + 8, 8) == theta && theta == w_aod_theta(c), "theta, little endian");
  if (NE > 0) {
    ASSERT(le(img + 16, 4) == NE, "entry count");
    for (int i = 0; i < NE; i++) ASSERT(le(img + 24 + 8 * i, 8) == keys[i], "keys in entry order");
    for (int i = 0; i < NE * NV; i++) ASSERT(le(img + 24 + 8 * NE + 8 * i, 8) == vals[i], "value bit patterns, entry by entry");
  }
  for (int i = 0; i < 128; i++) if (i >= want) ASSERT(img[i] == 0xA5, "nothing written past the image");
  /* the real reader on an exact-size buffer */
  uint8_t* heap = (uint8_t*)malloc((size_t)want); ASSUME(heap != 0);
  for (int i = 0; i < want; i++) heap[i] = img[i];
  void* d = w_aod_deser(heap, (uint64_t)want, SEED);
  ASSERT(d != 0, "the real reader accepts the image");
  ASSERT(w_aod_is_empty(d) == w_aod_is_empty(c) && w_aod_theta(d) == theta && w_aod_num(d) == NE && w_aod_num_values(d) == NV && w_aod_is_ordered(d) == w_aod_is_ordered(c), "round trip keeps emptiness, theta, count, num values, order flag");
  for (int i = 0; i < NE; i++) { ASSERT(w_aod_key(d, i) == keys[i], "round trip keeps keys"); for (int j = 0; j < NV; j++) ASSERT(w_aod_value(d, i, j) == vals[i * NV + j], "round trip keeps value bit patterns"); }
  w_aod_delete(d); w_aod_delete(c); free(heap);
  WITNESS();
}
