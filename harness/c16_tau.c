/* C16 (unit level: threshold bookkeeping of var_opt_union): resolve_tau(sketch) from an arbitrary bookkeeping state (outer numerator: symbolic
 * positive finite double, outer denominator DEN) and an estimation-mode input (reservoir count R, reservoir weight: symbolic positive finite
 * double): afterwards the union's outer threshold is the larger of the previous one and the input's (never below an input threshold),
 * a strictly larger input threshold REPLACES numerator and denominator, an equal one ACCUMULATES them, a smaller one changes nothing; an
 * exact-mode input (R = 0) changes nothing. The thresholds themselves are read through the library's own get_tau()/get_outer_tau(). */
#include "harness.h"
#include "api.h"
#include "randhook.h"
static int pos_finite(uint64_t b) { return (b >> 63) == 0 && ((b >> 52) & 0x7ff) != 0x7ff && ((b >> 52) & 0x7ff) != 0; }
void harness(void) {
  void* u = w_vou_new(8); void* s = w_vo_new(8);
  ASSERT(u && s, "construction");
  uint64_t nb = ND_U64(), wb = ND_U64();
  if (VERIF_RANDOM_MODE()) { nb = verif_double_to_bits(1.0 + (double)(nb % 64)); wb = verif_double_to_bits(1.0 + (double)(wb % 64)); }
  ASSUME(pos_finite(nb) && pos_finite(wb));
  uint64_t den = DEN; uint32_t r = R;
  w_vou_set_outer(u, den ? nb : verif_double_to_bits(0.0), den); w_vo_set_r(s, r, r ? wb : verif_double_to_bits(0.0));
  double outer0 = verif_bits_to_double(w_vou_outer_tau(u)), n0 = verif_bits_to_double(w_vou_numer(u));
  double st = verif_bits_to_double(w_vo_tau(s)), w = verif_bits_to_double(wb);
  ASSERT(w_vou_resolve_tau(u, s) == 0, "resolve_tau does not throw");
  double n1 = verif_bits_to_double(w_vou_numer(u)); uint64_t d1 = w_vou_denom(u);
  double outer1 = verif_bits_to_double(w_vou_outer_tau(u));
  if (r == 0) ASSERT(n1 == n0 && d1 == den, "an exact-mode input leaves the threshold bookkeeping alone");
  else if (den == 0) ASSERT(n1 == w && d1 == r, "the first estimation-mode input sets the threshold");
  else if (st > outer0) { ASSERT(n1 == w && d1 == r, "a larger input threshold replaces numerator and denominator"); ASSERT(outer1 == st, "outer threshold == the larger input threshold"); }
  else if (st == outer0) ASSERT(n1 == n0 + w && d1 == den + r, "an equal input threshold accumulates numerator and denominator");
  else ASSERT(n1 == n0 && d1 == den, "a smaller input threshold changes nothing");
  if (r > 0 && !(st == outer0 && den != 0)) ASSERT(outer1 >= st && outer1 >= outer0, "outer threshold never below an input threshold");
  OBSERVE(verif_double_to_bits(n1)); OBSERVE(d1);
  w_vou_delete(u); w_vo_delete(s);
  WITNESS();
}
