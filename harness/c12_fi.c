/* C12: frequent_items_sketch<uint64_t>, lg_max_map_size = 3 (8 slots, purge above 6 active items), CONCRETE distinct items 1..NA+NB
 * (so that hashing / probing is concrete) with SYMBOLIC weights. Sketch A gets items 1..NA, sketch B items NA-OV+1..NA-OV+NB
 * (OV items overlap), MERGE=1 merges B into A. Every item's true total weight must be bracketed, total weight exact.
 * NSYM: only the LAST NSYM weights drawn are symbolic (1..1000), the others are concrete (13, 23, 33, ...): a symbolic weight makes the
 * zero-weight early return of update() a symbolic branch, so each one doubles the paths symex has to keep. */
#include "harness.h"
#include "api.h"
#define NI (NA + NB)
#ifndef NSYM
#define NSYM NI
#endif
static int drawn;
#ifndef SYMPOS
#define SYMPOS (NI - NSYM)
#endif
static uint64_t weight(void) { int i = drawn++; if (i >= SYMPOS && i < SYMPOS + NSYM) return ND_RANGE(1, 1000); return 13 + 10 * (uint64_t)i; }   /* weights SYMPOS..SYMPOS+NSYM-1 (draw order) are symbolic */
void harness(void) {
  void* a = w_fi_new(3, 3); void* b = w_fi_new(3, 3);
  uint64_t truth[NI + 2]; uint64_t total = 0;
  for (int i = 0; i <= NI; i++) truth[i] = 0;
  for (int i = 0; i < NA; i++) { uint64_t w = weight(); ASSERT(w_fi_update(a, 1 + i, w) == 0, "update accepted"); truth[1 + i] += w; total += w; }
  for (int i = 0; i < NB; i++) { uint64_t w = weight(); uint64_t it = NA - OV + 1 + i; w_fi_update(MERGE ? b : a, it, w); truth[it] += w; total += w; }
#if MERGE
  ASSERT(w_fi_merge(a, b) == 0, "merge accepted");
#endif
  ASSERT(w_fi_total(a) == total, "total weight is the exact sum of all update weights");
  uint64_t me = w_fi_max_error(a);
  OBSERVE(me); OBSERVE(w_fi_active(a));
#ifdef SYMQUERY   /* concrete stream (constant-folded by symex), SYMBOLIC query item: the bracket must hold for every item 1..NI+1 */
  uint64_t qit = ND_RANGE(1, NI + 1);
  for (uint64_t it = qit; it <= qit; it++) {
#else
  for (uint64_t it = 1; it <= NI + 1; it++) {     /* NI+1: an item never offered */
#endif
    uint64_t t = 0; for (uint64_t j = 1; j <= NI; j++) if (j == it) t = truth[j];
    uint64_t lb = w_fi_lower(a, it), ub = w_fi_upper(a, it), est = w_fi_estimate(a, it);
    ASSERT(lb <= t && t <= ub, "lower bound <= true total weight <= upper bound, for tracked and untracked items");
    ASSERT(lb <= est && est <= ub, "estimate between the bounds");
    ASSERT(ub - lb == me, "upper - lower == reported maximum error");
  }
#ifdef RESULTSETS   /* sorting a result vector of symbolic length is expensive: separate queries */
  /* result sets */
  uint64_t thr = ND_RANGE(0, 3000); uint64_t ri[10], re[10], rl[10], ru[10];
  int32_t n = w_fi_frequent(a, 1, thr, ri, re, rl, ru, 10);
  ASSERT(n >= 0 && n <= 8, "NO_FALSE_NEGATIVES query accepted");
  for (uint64_t it = 1; it <= NI; it++) if (truth[it] > thr) { int in = 0; for (int j = 0; j < 10; j++) if (j < n && ri[j] == it) in = 1; ASSERT(in, "NO_FALSE_NEGATIVES returns every item whose true weight exceeds the threshold"); }
  for (int j = 1; j < 10; j++) if (j < n) ASSERT(re[j - 1] >= re[j], "result in descending estimate order");
  int32_t m = w_fi_frequent(a, 0, thr, ri, re, rl, ru, 10);
  for (int j = 0; j < 10; j++) if (j < m) ASSERT(ri[j] >= 1 && ri[j] <= NI && truth[ri[j]] > thr, "NO_FALSE_POSITIVES returns only items whose true weight exceeds the threshold");
#endif
  w_fi_delete(a); w_fi_delete(b);
  WITNESS();
}
