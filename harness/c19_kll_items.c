/* C19: kll_sketch over an instrumented item type: every constructor / destructor of an item calls the ledger below.
 * A <- NA items, B <- NB items (k = 8; with 9+ items a sketch is past exact mode), then SCRIPT: 0 merge by reference, 1 merge by move,
 * 2 copy-construct + copy-assign. After all sketches are destroyed every item that was constructed has been destroyed exactly once:
 * the live count is 0 and never went negative. All but NSYM item values are concrete (A's are large, B's small, so that A's items form
 * the tail of a merged level); the internal coin is nondeterministic. */
#define VERIF_CUSTOM_COIN
#include "harness.h"
#include "api.h"
#include "randhook.h"
uint32_t datasketches_verif_random_bit(void) { return (uint32_t)ND_BOOL(); }
static long live, ctors, dtors; static int negative, phantom_dtor, double_ctor;
/* address-level tracking: a destructor may only run on storage that currently holds a constructed item, a constructor only on storage that does not
 * (a leaked item and a destructor call on raw storage would otherwise cancel out in the counters) */
#define NLIVE 48
static const uint8_t* livep[NLIVE];
void verif_item_ctor(uint8_t* self) {
  live++; ctors++; int done = 0;
  for (int i = 0; i < NLIVE; i++) if (livep[i] == self) double_ctor = 1;
  for (int i = 0; i < NLIVE; i++) if (!done && livep[i] == 0) { livep[i] = self; done = 1; }
}
void verif_item_dtor(uint8_t* self) {
  live--; dtors++; if (live < 0) negative = 1; int found = 0;
  for (int i = 0; i < NLIVE; i++) if (!found && livep[i] == self) { livep[i] = 0; found = 1; }
  if (!found) phantom_dtor = 1;
}
void harness(void) {
  void* a = w_ki_new(8); void* b = w_ki_new(8);
  int sym = 0;
  for (int i = 0; i < NA; i++) w_ki_update(a, 1000 + 7 * i);
  for (int i = 0; i < NB; i++) { int32_t v = (sym < NSYM) ? (sym++, (int32_t)ND_RANGE(0, 2000)) : 3 * i; w_ki_update(b, v); }
#if SCRIPT == 0
  ASSERT(w_ki_merge(a, b) == 0, "merge by reference accepted");
  ASSERT(w_ki_n(a) == NA + NB, "n adds up");
#elif SCRIPT == 1
  ASSERT(w_ki_merge_move(a, b) == 0, "merge by move accepted");
  ASSERT(w_ki_n(a) == NA + NB, "n adds up");
#else
  { void* c = w_ki_copy(a); ASSERT(c != 0 && w_ki_n(c) == NA, "copy construction"); ASSERT(w_ki_assign(c, b) == 0 && w_ki_n(c) == NB, "copy assignment"); w_ki_delete(c); }
#endif
  ASSERT(live == (long)w_ki_num_retained(a) + (long)w_ki_num_retained(b) + (NA > 0 ? 2 : 0) + (NB > 0 ? 2 : 0) || SCRIPT == 1, "live items == retained items + min/max copies of each non-empty sketch");
  w_ki_delete(a); w_ki_delete(b);
  OBSERVE(ctors); OBSERVE(dtors);
  ASSERT(!negative, "no item destroyed more often than constructed");
  ASSERT(!phantom_dtor, "no destructor runs on storage that holds no constructed item");
  ASSERT(!double_ctor, "no item constructed over a live item");
  ASSERT(live == 0 && ctors == dtors, "every constructed item has been destroyed exactly once when the last sketch dies");
  WITNESS();
}
