/* C18 (merge bookkeeping with unequal, CONCRETE weights — so that the lighter sketch carries a fractional c and a partial item — symbolic item
 * values and symbolic random draws): sketch A (k = KA) gets the items with weights WA, sketch B (k = KB) those with WB, B is merged into A.
 * For every outcome of the random draws: n and cumulative weight add exactly, k becomes the smaller one, the expected sample size c equals
 * min(k, cumulative weight / maximum weight) (to 1e-9: c is maintained by repeated scaling), the sample holds floor(c) or ceil(c) items counting
 * the partial one, and every sampled item is one of the inputs. */
#include "harness.h"
#include "api.h"
#include "randhook.h"
static const double wa[] = { WA }; static const double wb[] = { WB };
#define NA ((int)(sizeof(wa) / sizeof(wa[0])))
#define NB ((int)(sizeof(wb) / sizeof(wb[0])))
void harness(void) {
  void* a = w_eb_new(KA); void* b = w_eb_new(KB);
  ASSERT(a && b, "construction");
  uint32_t items[NA + NB]; double cum = 0, mx = 0;
  for (int i = 0; i < NA; i++) { items[i] = (uint32_t)ND_RANGE(0, 999); ASSERT(w_eb_update(a, items[i], verif_double_to_bits(wa[i])) == 0, "update accepted"); cum += wa[i]; if (wa[i] > mx) mx = wa[i]; }
  for (int i = 0; i < NB; i++) { items[NA + i] = (uint32_t)ND_RANGE(1000, 1999); ASSERT(w_eb_update(b, items[NA + i], verif_double_to_bits(wb[i])) == 0, "update accepted"); cum += wb[i]; if (wb[i] > mx) mx = wb[i]; }
  ASSERT(w_eb_merge(a, b) == 0, "merge accepted");
  const uint32_t k = KA < KB ? KA : KB;
  ASSERT(w_eb_k(a) == k, "merge keeps the smaller k");
  ASSERT(w_eb_n(a) == (uint64_t)(NA + NB), "merge adds n");
  ASSERT(verif_bits_to_double(w_eb_cum_wt(a)) == cum, "merge adds the cumulative weights exactly");
  double c = verif_bits_to_double(w_eb_c(a)), want = cum / mx; if (want > (double)k) want = (double)k;
  ASSERT(c > want - 1e-9 && c < want + 1e-9, "expected sample size c == min(k, cumulative weight / maximum weight)");
  uint32_t got[8]; int32_t m = w_eb_full_items(a, got, 8); int tot = m + (w_eb_has_partial(a) ? 1 : 0);
  ASSERT((double)tot >= c - 1e-9 && (double)m <= c + 1e-9 && tot - m <= 1, "the sample holds floor(c) full items plus at most one partial item (floor(c) or ceil(c) in total)");
  for (int j = 0; j < 8; j++) if (j < m) { int in = 0; for (int i = 0; i < NA + NB; i++) if (items[i] == got[j]) in = 1; ASSERT(in, "every sampled item is one of the inputs"); }
  OBSERVE(verif_double_to_bits(c)); OBSERVE(m);
  w_eb_delete(a); w_eb_delete(b);
  WITNESS();
}
