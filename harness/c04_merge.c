/* C04 (unit level: the register merge of the union gadget). The gadget is an Hll8Array of lg_k = 4; the input is an HLL-mode array of width
 * SRC (4, 6 or 8 bits) and lg_k = SLG (4: same size, 5: larger, folded down by slot & 15) that received a concrete coupon prefix (incl. aux
 * exceptions for HLL_4) and ONE symbolic coupon (any slot, any value 1..63). After Hll8Array::mergeHll every gadget register equals the maximum of
 * its previous value and of all input registers that fold onto it — exactly the registers of a single lg_k = 4 sketch that saw both streams. */
#include "harness.h"
#include "api.h"
#define DK 16
#define SK (1 << SLG)
#if SRC == 4
#define S_NEW w_h4_new
#define S_COUPON w_h4_coupon
#define S_VALUE w_h4_value
#define S_DELETE w_h4_delete
#define MERGE w_h8_merge_h4
#elif SRC == 6
#define S_NEW w_h6_new
#define S_COUPON w_h6_coupon
#define S_VALUE w_h6_value
#define S_DELETE w_h6_delete
#define MERGE w_h8_merge_h6
#else
#define S_NEW w_h8_new
#define S_COUPON w_h8_coupon
#define S_VALUE w_h8_value
#define S_DELETE w_h8_delete
#define MERGE w_h8_merge_h8
#endif
void harness(void) {
  void* dst = w_h8_new(4); void* src = S_NEW(SLG);
  ASSERT(dst && src, "construction");
  uint8_t od[DK], os[SK]; for (int i = 0; i < DK; i++) od[i] = 0; for (int i = 0; i < SK; i++) os[i] = 0;
  static const uint32_t dpre[] = { DPREFIX 0 }; static const uint32_t spre[] = { SPREFIX 0 };
  for (unsigned c = 0; c + 1 < sizeof(dpre) / sizeof(dpre[0]); c++) { uint32_t s = dpre[c] & 0x3ffffff, v = dpre[c] >> 26; w_h8_coupon(dst, dpre[c]); if (v > od[s]) od[s] = (uint8_t)v; }
  for (unsigned c = 0; c + 1 < sizeof(spre) / sizeof(spre[0]); c++) { uint32_t s = spre[c] & 0x3ffffff, v = spre[c] >> 26; S_COUPON(src, spre[c]); if (v > os[s]) os[s] = (uint8_t)v; }
  { uint32_t slot = (uint32_t)ND_RANGE(0, SK - 1), val = (uint32_t)ND_RANGE(1, 63); ASSERT(S_COUPON(src, (val << 26) | slot) == 0, "input accepts the coupon"); for (int i = 0; i < SK; i++) if ((uint32_t)i == slot && val > os[i]) os[i] = (uint8_t)val; }
  for (int i = 0; i < SK; i++) ASSERT(S_VALUE(src, i) == os[i], "input register == max of its coupons (C03)");
  ASSERT(MERGE(dst, src) == 0, "merge accepted");
  for (int i = 0; i < DK; i++) {
    uint8_t want = od[i]; for (int j = 0; j < SK; j++) if ((j & (DK - 1)) == i && os[j] > want) want = os[j];
    ASSERT(w_h8_value(dst, i) == want, "gadget register == max(previous, every input register folding onto it)");
    OBSERVE(want);
  }
  for (int i = 0; i < SK; i++) ASSERT(S_VALUE(src, i) == os[i], "the input is left unchanged");
  w_h8_delete(dst); S_DELETE(src);
  WITNESS();
}
