/* C07 / C08 kernel: kll_helper::general_compress (the merge-time compaction) on a work buffer of two levels with CONCRETE populations
 * P0 (level 0, unsorted unless SORTED0) and P1 (level 1, ascending), all items symbolic. Run once per coin schedule.
 * Asserts per run: no exception, total weight conserved, every level above 0 ascending, every output item is an input item;
 * across the runs: same number of coin flips, and for a symbolic query point the weighted rank summed over the 2^c coin outcomes
 * equals 2^c times the weighted rank of the input (unbiasedness of the compaction). */
#define VERIF_CUSTOM_COIN
#include "harness.h"
#include "api.h"
#include "randhook.h"
#define NI (P0 + P1)
static unsigned coin_sched, coin_used;
uint32_t datasketches_verif_random_bit(void) { unsigned i = coin_used++; return (coin_sched >> i) & 1u; }
void harness(void) {
  int32_t in[NI + 1]; int32_t q = (int32_t)ND_U32();
  for (int i = 0; i < NI; i++) in[i] = (int32_t)(VERIF_RANDOM_MODE() ? ND_RANGE(0, 50) : ND_U32());
  if (SORTED0) for (int i = 1; i < P0; i++) ASSUME(in[i - 1] <= in[i]);
  if (VERIF_RANDOM_MODE()) { for (int i = P0 + 1; i < NI; i++) in[i] = in[i - 1] + (in[i] & 3); }
  for (int i = P0 + 1; i < NI; i++) ASSUME(in[i - 1] <= in[i]);     /* levels above 0 are sorted (sketch invariant) */
  uint64_t rank_in = 0; for (int i = 0; i < NI; i++) if (in[i] < q) rank_in += (i < P0 ? 1 : 2);
  uint64_t sum = 0; unsigned flips0 = 0;
  for (unsigned s = 0; s < (1u << COINS); s++) {
    int32_t items[NI + 1]; uint32_t inl[8], outl[8], res[3];
    for (int i = 0; i < NI; i++) items[i] = in[i];
    for (int i = 0; i < 8; i++) { inl[i] = 0; outl[i] = 0; }
    inl[0] = 0; inl[1] = P0; inl[2] = NI;
    coin_sched = s; coin_used = 0;
    int rc = w_kll_general_compress(KK, MM, 2, items, inl, outl, SORTED0, res);
    ASSERT(rc == 0, "general_compress does not throw on a valid work buffer");
    if (s == 0) flips0 = coin_used;
    ASSERT(coin_used == flips0 && coin_used == COINS, "the number of coin flips does not depend on their outcomes");
    uint32_t nl = res[0]; ASSERT(nl >= 2 && nl <= 5, "level count grows by at most the compacted top levels");
    ASSERT(outl[0] == 0 && outl[nl] == res[2] && res[2] <= NI, "output boundaries cover final_num_items");
    uint64_t w = 0, rank_out = 0;
    for (uint32_t h = 0; h < 5; h++) if (h < nl) {
      ASSERT(outl[h] <= outl[h + 1], "level boundaries non-decreasing");
      for (uint32_t i = 0; i < NI; i++) if (i >= outl[h] && i < outl[h + 1]) {
        w += (uint64_t)1 << h; if (items[i] < q) rank_out += (uint64_t)1 << h;
        if (h >= 1 && i > outl[h]) ASSERT(items[i - 1] <= items[i], "every level above 0 is sorted after the compaction");
        int from = 0; for (int j = 0; j < NI; j++) if (in[j] == items[i]) from = 1; ASSERT(from, "output items are input items");
        OBSERVE(items[i]);
      }
    }
    ASSERT(w == (uint64_t)P0 + 2 * (uint64_t)P1, "total weight conserved");
    sum += rank_out;
  }
#ifndef ONLY_STRUCT
  ASSERT(sum == (rank_in << COINS), "weighted rank averaged over all coin outcomes equals the input's weighted rank exactly");
#endif
  WITNESS();
}
