/* C17 (bookkeeping clauses before the first compression): tdigest<double>(k = 10) fed NV symbolic doubles (any bit pattern: finite,
 * infinite or NaN): total weight == number of accepted (non-NaN) values, min / max are exactly the extremes of the accepted values
 * (bit-exact up to the sign of zero), NaN updates are ignored, min/max queries on an empty digest are refused.
 * compress() is cut with an assert-unreachable (the buffer of 4*(2k+fudge) values cannot fill with <= 4 updates): the solver proves it. */
#include "harness.h"
#include "api.h"
static int is_nan(uint64_t b) { return ((b >> 52) & 0x7ff) == 0x7ff && (b & 0xfffffffffffffULL) != 0; }
void harness(void) {
  void* s = w_td_new(10);
  ASSERT(s && w_td_is_empty(s) && w_td_total_weight(s) == 0 && w_td_k(s) == 10, "fresh digest is empty");
  uint64_t mn0 = 0, mx0 = 0; ASSERT(w_td_min(s, &mn0) == 1 && w_td_max(s, &mx0) == 1, "min / max of an empty digest are refused");
  uint64_t acc = 0; double mn = 0, mx = 0;
  for (int i = 0; i < NV; i++) {
    uint64_t b = ND_U64();
    ASSERT(w_td_update(s, b) == 0, "update does not throw");
    if (!is_nan(b)) { double d = verif_bits_to_double(b); if (acc == 0) { mn = d; mx = d; } else { if (d < mn) mn = d; if (d > mx) mx = d; } acc++; }
  }
  ASSERT(w_td_total_weight(s) == acc, "total weight == number of accepted values (NaN updates are ignored)");
  ASSERT((int)w_td_is_empty(s) == (acc == 0), "empty iff nothing accepted");
  if (acc > 0) {
    uint64_t a = 0, b = 0; ASSERT(w_td_min(s, &a) == 0 && w_td_max(s, &b) == 0, "min / max available");
    ASSERT(verif_bits_to_double(a) == mn && verif_bits_to_double(b) == mx, "min and max are exactly the extremes of the accepted values");
    OBSERVE(a); OBSERVE(b);
  }
  w_td_delete(s);
  WITNESS();
}
