/* C03: the three HLL register arrays (4, 6, 8 bit), lg_k = 4, started full-size, fed the same NC symbolic coupons (slot 0..15, value 1..63):
 * after every prefix the logical per-slot values read through the array's iterator equal the per-slot maximum (oracle), identically for
 * the three widths; emptiness; HLL_4 bookkeeping (cur_min, num_at_cur_min) consistent with the registers; conversion keeps the registers. */
#include "harness.h"
#include "api.h"
#define K 16
void harness(void) {
  void* a4 = w_h4_new(4); void* a6 = w_h6_new(4); void* a8 = w_h8_new(4);
  ASSERT(a4 && a6 && a8, "construction");
  ASSERT(w_h4_is_empty(a4) && w_h6_is_empty(a6) && w_h8_is_empty(a8), "fresh arrays are empty");
  uint8_t oracle[K]; for (int i = 0; i < K; i++) oracle[i] = 0;
  static const uint32_t prefix[] = { PREFIX 0 };     /* concrete coupons applied first (constant-folded by symex); the trailing 0 is ignored */
  for (unsigned c = 0; c + 1 < sizeof(prefix) / sizeof(prefix[0]); c++) {
    uint32_t slot = prefix[c] & 0x3ffffff, val = prefix[c] >> 26;
    w_h4_coupon(a4, prefix[c]); w_h6_coupon(a6, prefix[c]); w_h8_coupon(a8, prefix[c]);
    if (val > oracle[slot]) oracle[slot] = (uint8_t)val;
  }
  for (int c = 0; c < NC; c++) {
    uint32_t slot = (uint32_t)ND_RANGE(0, K - 1), val = (uint32_t)ND_RANGE(1, 63);
    uint32_t coupon = (val << 26) | slot;
    ASSERT(w_h4_coupon(a4, coupon) == 0 && w_h6_coupon(a6, coupon) == 0 && w_h8_coupon(a8, coupon) == 0, "coupon update accepted, array stays in place");
    if (val > oracle[slot]) oracle[slot] = (uint8_t)val;
  }
  uint32_t nmin = 0; uint8_t mn = 255;
  for (int i = 0; i < K; i++) if (oracle[i] < mn) mn = oracle[i];
  for (int i = 0; i < K; i++) {
    ASSERT(w_h8_value(a8, i) == oracle[i], "HLL_8 register == max of the coupon values for that slot");
    ASSERT(w_h6_value(a6, i) == oracle[i], "HLL_6 register == max of the coupon values for that slot");
    ASSERT(w_h4_value(a4, i) == oracle[i], "HLL_4 logical register (nibble + cur_min, or aux exception) == max of the coupon values for that slot");
    if (oracle[i] == mn) nmin++;
    OBSERVE(oracle[i]);
  }
  int any = (NC > 0) || (sizeof(prefix) / sizeof(prefix[0]) > 1);
  ASSERT((int)w_h8_is_empty(a8) == !any && (int)w_h4_is_empty(a4) == !any, "is_empty iff no coupon");
  ASSERT(w_h4_cur_min(a4) == mn && w_h4_num_at_cur_min(a4) == nmin, "HLL_4 cur_min / num_at_cur_min consistent with the registers");
#ifdef CONVERT
  void* c8 = w_h8_from_h4(a4); void* c6 = w_h6_from_h4(a4); void* c4 = w_h4_from_h8(a8);
  ASSERT(c8 && c6 && c4, "conversion accepted");
  for (int i = 0; i < K; i++) ASSERT(w_h8_value(c8, i) == oracle[i] && w_h6_value(c6, i) == oracle[i] && w_h4_value(c4, i) == oracle[i], "converting a copy to another register width keeps every register");
  w_h8_delete(c8); w_h6_delete(c6); w_h4_delete(c4);
#endif
  w_h4_delete(a4); w_h6_delete(a6); w_h8_delete(a8);
  WITNESS();
}
