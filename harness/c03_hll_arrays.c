/* C03: the three HLL register arrays (4, 6, 8 bit), lg_k = 4, started full-size, fed the same NC symbolic coupons (slot 0..15, value 1..63):
 * after every prefix the logical per-slot values read through the array's iterator equal the per-slot maximum (oracle), identically for
 * the three widths; emptiness; HLL_4 bookkeeping (cur_min, num_at_cur_min) consistent with the registers; conversion keeps the registers. */
#include "harness.h"
#include "api.h"
#define K 16
void harness(void) {
  void* a4 = w_hll_arr_new(4, 4); void* a6 = w_hll_arr_new(6, 4); void* a8 = w_hll_arr_new(8, 4);
  ASSERT(a4 && a6 && a8, "construction");
  ASSERT(w_hll_arr_is_empty(a4) && w_hll_arr_is_empty(a6) && w_hll_arr_is_empty(a8), "fresh arrays are empty");
  uint8_t oracle[K]; for (int i = 0; i < K; i++) oracle[i] = 0;
  for (int c = 0; c < NC; c++) {
    uint32_t slot = (uint32_t)ND_RANGE(0, K - 1), val = (uint32_t)ND_RANGE(1, 63);
    uint32_t coupon = (val << 26) | slot;
    ASSERT(w_hll_arr_coupon(a4, coupon) == 0 && w_hll_arr_coupon(a6, coupon) == 0 && w_hll_arr_coupon(a8, coupon) == 0, "coupon update accepted, array stays in place");
    if (val > oracle[slot]) oracle[slot] = (uint8_t)val;
  }
  uint8_t v4[K], v6[K], v8[K];
  for (int i = 0; i < K; i++) { v4[i] = 0xff; v6[i] = 0xff; v8[i] = 0xff; }
  ASSERT(w_hll_arr_values(a4, v4, K) == K && w_hll_arr_values(a6, v6, K) == K && w_hll_arr_values(a8, v8, K) == K, "iterator over all slots yields k entries");
  uint32_t nmin = 0; uint8_t mn = 255;
  for (int i = 0; i < K; i++) if (oracle[i] < mn) mn = oracle[i];
  for (int i = 0; i < K; i++) {
    ASSERT(v8[i] == oracle[i], "HLL_8 register == max of the coupon values for that slot");
    ASSERT(v6[i] == oracle[i], "HLL_6 register == max of the coupon values for that slot");
    ASSERT(v4[i] == oracle[i], "HLL_4 logical register (nibble + cur_min, or aux exception) == max of the coupon values for that slot");
    if (oracle[i] == mn) nmin++;
    OBSERVE(v4[i]);
  }
  ASSERT((int)w_hll_arr_is_empty(a8) == (NC == 0), "is_empty iff no coupon");
  ASSERT(w_hll_arr_cur_min(a4) == mn && w_hll_arr_num_at_cur_min(a4) == nmin, "HLL_4 cur_min / num_at_cur_min consistent with the registers");
#ifdef CONVERT
  void* c = w_hll_arr_convert(a4, CONVERT); uint8_t vc[K]; for (int i = 0; i < K; i++) vc[i] = 0xff;
  ASSERT(c && w_hll_arr_values(c, vc, K) == K, "conversion accepted");
  for (int i = 0; i < K; i++) ASSERT(vc[i] == oracle[i], "converting a copy to another register width keeps every register");
  w_hll_arr_delete(c);
#endif
  w_hll_arr_delete(a4); w_hll_arr_delete(a6); w_hll_arr_delete(a8);
  WITNESS();
}
