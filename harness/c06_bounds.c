/* C06 (guard / clamp logic only): binomial_bounds::get_lower_bound / get_upper_bound with the numerical approximation functions
 * compute_approx_binomial_{lower,upper}_bound replaced by ARBITRARY doubles (incl. NaN, +-inf): whatever they return,
 * lower <= estimate <= upper, lower >= number of samples, and arguments outside the domain are refused. */
#include "harness.h"
#include "api.h"
void harness(void) {
  uint64_t n = ND_RANGE(0, (uint64_t)1 << NBITS);
  double theta = verif_bits_to_double(VERIF_RANDOM_MODE() ? (0x3fe0000000000000ULL - (ND_U64() & 0xfffffffffffffULL)) : ND_U64());
  uint32_t k = (uint32_t)ND_RANGE(0, 5);
  double lb = 0, ub = 0;
  int r1 = w_bb_lower(n, theta, k, &lb), r2 = w_bb_upper(n, theta, k, &ub);
  OBSERVE(r1); OBSERVE(r2);
  if (theta != theta) { WITNESS(); return; }   /* NaN theta: outside the documented domain, not asserted */
  int bad = (theta < 0.0 || theta > 1.0 || k < 1 || k > 3);
  ASSERT(r1 == bad && r2 == bad, "arguments outside [0,1] x {1,2,3} are refused, inside accepted");
  if (!bad && theta > 0.0) {
    double est = (double)n / theta;
    ASSERT(lb <= est, "lower bound <= estimate");
    ASSERT(est <= ub, "estimate <= upper bound");
    ASSERT(lb >= (double)n || lb == est, "lower bound is at least the number of retained samples (or the estimate itself)");
    ASSERT(lb == lb && ub == ub, "bounds are never NaN");
  }
  WITNESS();
}
