/* C06 (the shared binomial_bounds entry points used by Theta and Tuple sketches). Three kinds of query:
 *  MODE 0  exact mode: theta = 1.0 (concrete), REAL approximation kernels, n and num_std_devs symbolic: lower == estimate == upper == n.
 *  MODE 1  guard / clamp layer: theta CONCRETE from a list (the division n / theta then has a constant divisor), the numerical kernels
 *          compute_approx_binomial_{lower,upper}_bound replaced by ARBITRARY doubles (incl. NaN, +-inf): whatever they return,
 *          lower <= estimate <= upper, lower >= number of samples (or the estimate itself), never NaN.
 *  MODE 2  argument checks: theta any double (not NaN), num_std_devs 0..5: refused exactly outside [0,1] x {1,2,3} (kernels havocked). */
#include "harness.h"
#include "api.h"
void harness(void) {
  uint64_t n = ND_RANGE(0, (uint64_t)1 << NBITS);
  uint32_t k = (uint32_t)ND_RANGE(0, 5);
#if MODE == 2
  double theta = verif_bits_to_double(VERIF_RANDOM_MODE() ? (0x3ff8000000000000ULL - (ND_U64() & 0x1fffffffffffffULL)) : ND_U64());
  ASSUME(theta == theta);
#else
  double theta = verif_bits_to_double(THETA_BITS);
#endif
  double lb = 0, ub = 0;
  int r1 = w_bb_lower(n, theta, k, &lb), r2 = w_bb_upper(n, theta, k, &ub);
  OBSERVE(r1); OBSERVE(r2);
  int bad = (theta < 0.0 || theta > 1.0 || k < 1 || k > 3);
  ASSERT(r1 == bad && r2 == bad, "arguments outside [0,1] x {1,2,3} are refused, inside accepted");
#if MODE == 0
  if (!bad) { ASSERT(lb == (double)n && ub == (double)n, "exact mode (theta = 1): lower bound == estimate == upper bound == retained count"); OBSERVE(verif_double_to_bits(lb)); }
#elif MODE == 1
  if (!bad) {
    double est = (double)n / theta;
    ASSERT(lb <= est, "lower bound <= estimate");
    ASSERT(est <= ub, "estimate <= upper bound");
    ASSERT(lb >= (double)n || lb == est, "lower bound is at least the number of retained samples (or the estimate itself)");
    ASSERT(lb == lb && ub == ub, "bounds are never NaN");
  }
#endif
  WITNESS();
}
