/* C18 (bookkeeping clauses with equal weights, n <= k): ebpps_sketch<uint32>(k = KK) fed NU <= k symbolic items of weight 1.0, optionally one more
 * update with an INVALID or ZERO weight (any 64-bit pattern that is negative, NaN, infinite or zero), optionally merged with a second sketch fed NB
 * items of weight 1.0 (NU + NB <= KK): n and the cumulative weight are exact, the expected sample size c equals min(k, cumulative weight /
 * maximum weight) = n, every item is kept (the sample is exactly the input, no partial item), invalid weights are refused and zero weights
 * ignored without changing anything, merging adds n and cumulative weight and keeps the smaller k. No random draw may influence any of this. */
#include "harness.h"
#include "api.h"
#include "randhook.h"
#ifndef NB
#define NB 0
#endif
#ifndef KB
#define KB KK
#endif
static int invalid_or_zero(uint64_t b) {
  int sign = (int)(b >> 63); uint64_t ex = (b >> 52) & 0x7ff, fr = b & 0xfffffffffffffULL;
  if (ex == 0x7ff) return 1;            /* NaN or infinite */
  if (ex == 0 && fr == 0) return 1;     /* +-0 */
  return sign;                          /* negative */
}
void harness(void) {
  void* s = w_eb_new(KK);
  ASSERT(s && w_eb_is_empty(s) && w_eb_n(s) == 0 && w_eb_k(s) == KK, "fresh sketch is empty");
  uint32_t items[NU + NB + 1];
  const uint64_t ONE = 0x3ff0000000000000ULL;
  for (int i = 0; i < NU; i++) { items[i] = ND_U32(); ASSERT(w_eb_update(s, items[i], ONE) == 0, "update with a valid weight accepted"); }
#ifdef BAD
  { uint64_t wb = ND_U64(); if (VERIF_RANDOM_MODE()) wb |= 0x8000000000000000ULL; ASSUME(invalid_or_zero(wb));
    int zero = ((wb << 1) == 0);
    int r = w_eb_update(s, 77, wb);
    ASSERT(r == (zero ? 0 : 1), "negative, NaN and infinite weights are refused; a zero weight is accepted and ignored"); }
#endif
#if NB > 0
  void* o = w_eb_new(KB);
  for (int i = 0; i < NB; i++) { items[NU + i] = ND_U32(); w_eb_update(o, items[NU + i], ONE); }
  ASSERT(w_eb_merge(s, o) == 0, "merge accepted");
  ASSERT(w_eb_k(s) == (KK < KB ? KK : KB), "merge keeps the smaller k");
  ASSERT(w_eb_n(o) == NB, "merge leaves the other sketch alone");
#endif
  const int total = NU + NB;
  ASSERT(w_eb_n(s) == (uint64_t)total, "n counts the accepted updates exactly (merge adds n)");
  ASSERT(verif_bits_to_double(w_eb_cum_wt(s)) == (double)total, "cumulative weight is the exact sum of the weights (merge adds it)");
  ASSERT(verif_bits_to_double(w_eb_c(s)) == (double)total, "expected sample size c == min(k, cumulative weight / maximum weight) == n while n <= k");
  ASSERT((int)w_eb_is_empty(s) == (total == 0), "empty iff nothing accepted");
  uint32_t got[NU + NB + 2]; int32_t m = w_eb_full_items(s, got, NU + NB + 2);
  ASSERT(m == total && !w_eb_has_partial(s), "with equal weights and n <= k every item is kept: exactly n full items, no partial item");
  for (int i = 0; i < total; i++) { int cnt_in = 0, cnt_out = 0; for (int j = 0; j < total; j++) { if (items[j] == items[i]) cnt_in++; if (j < m && got[j] == items[i]) cnt_out++; } ASSERT(cnt_in == cnt_out, "the sample is exactly the multiset of input items"); OBSERVE(got[i]); }
#if NB == 0
  ASSERT(verif_rand_calls == 0 && verif_coin_calls == 0, "no random draw is made while every item is kept");
#endif
#if NB > 0
  w_eb_delete(o);
#endif
  w_eb_delete(s);
  WITNESS();
}
