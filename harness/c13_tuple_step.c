/* C13: one update(key, value) of the real update_tuple_sketch<uint32> (policy: summary' = 3*summary + value, so arrival order shows)
 * from a table state of concrete occupancy MASK with symbolic keys AND summaries (each key assumed findable in its slot, as in C01):
 * afterwards the key set is exactly what the Theta rule retains, the summary of the updated key is the policy applied to its previous
 * summary (or to create() for a new key), every other retained key keeps its summary through insert / resize / rebuild moves;
 * compact() and filter() expose the same (key, summary) pairs. */
#include "hashmodel.h"
#include "api.h"
#define MAX_THETA 0x7fffffffffffffffULL
#define SIZE (1u << LGC)
#define K (1u << LGN)
#define MAXSZ (1u << (LGN + 1))
void harness(void) {
  uint64_t theta0 = (NUM >= K && LGC == LGN + 1) ? ND_RANGE(1, MAX_THETA) : MAX_THETA;
  uint64_t seed = ND_U64();
  void* s = w_tup_new(LGC, LGN, RF, theta0, seed);
  uint64_t pk[SIZE + 1]; uint32_t ps[SIZE + 1]; uint32_t slot_of[SIZE + 1]; uint32_t np = 0;
  for (uint32_t i = 0; i < SIZE; i++) if (((uint64_t)MASK >> i) & 1) {
    uint64_t v = ND_RANGE(1, MAX_THETA); uint32_t sm = ND_U32();
    if (VERIF_RANDOM_MODE()) { v = (v & ~(uint64_t)(SIZE - 1)) | i; if (v >= theta0) v = (v % theta0 & ~(uint64_t)(SIZE - 1)) | i; }
    ASSUME(v != 0 && v < theta0);
    w_tup_set_slot(s, i, v, sm); pk[np] = v; ps[np] = sm; slot_of[np] = i; np++;
  }
  for (uint32_t j = 0; j < NUM; j++) { int found; uint32_t at = w_tup_find(s, pk[j], &found); ASSUME(found && at == slot_of[j]); }
  w_tup_set_num(s, NUM);
  uint64_t item = ND_U64(); uint32_t val = ND_U32();
  ASSERT(w_tup_update(s, item, val) == 0, "update does not throw");
  ASSERT(hm_calls == 1 && hm[0].len == 8 && hm[0].seed == seed && hm_key_u64(0) == item, "update(uint64 key) hashes the 8 bytes of the key with the sketch seed (same as the Theta sketch)");
  uint64_t h = hm[0].h1 >> 1;
  uint64_t theta1 = w_tup_theta(s); uint32_t num1 = w_tup_num(s);
  ASSERT(theta1 <= theta0, "theta never increases");
  uint64_t keys[MAXSZ + 1]; uint32_t sums[MAXSZ + 1];
  uint32_t n = w_tup_entries(s, keys, sums, MAXSZ + 1);
  ASSERT(n == num1 && n <= MAXSZ, "iterator yields num_retained entries");
  int h_ok = (h != 0 && h < theta0);
  for (uint32_t i = 0; i < MAXSZ; i++) if (i < n) {
    uint64_t k = keys[i]; int from = -1;
    for (uint32_t j = 0; j < NUM; j++) if (pk[j] == k) from = (int)j;
    ASSERT(k != 0 && k < theta1, "retained keys are non-zero and below theta");
    ASSERT(from >= 0 || (h_ok && k == h), "no extra key: retained keys come from the pre-state or the offered key");
    uint32_t expect = from >= 0 ? ((h_ok && k == h) ? ps[from] * 3u + val : ps[from]) : (0u * 3u + val);
    ASSERT(sums[i] == expect, "summary == update policy folded over the values offered with that key, in arrival order; other keys keep theirs");
    for (uint32_t j = 0; j < i; j++) ASSERT(keys[j] != k, "no key twice");
    OBSERVE(k); OBSERVE(sums[i]);
  }
  for (uint32_t j = 0; j < NUM; j++) if (pk[j] < theta1) { int in = 0; for (uint32_t i = 0; i < MAXSZ; i++) if (i < n && keys[i] == pk[j]) in = 1; ASSERT(in, "no missing key below theta"); }
  if (h_ok && h < theta1) { int in = 0; for (uint32_t i = 0; i < MAXSZ; i++) if (i < n && keys[i] == h) in = 1; ASSERT(in, "the offered key is retained when below theta"); }
  if (theta1 < theta0) ASSERT(num1 == K, "theta lowered only by a rebuild that leaves k entries");
#ifdef ALSO_COMPACT
  { void* c = w_tup_compact(s, 1); ASSERT(c != 0, "compact accepted");
    uint64_t ck[MAXSZ + 1]; uint32_t cs[MAXSZ + 1]; uint32_t cn = w_ctup_entries(c, ck, cs, MAXSZ + 1);
    ASSERT(cn == n && w_ctup_theta(c) == theta1 && w_ctup_is_ordered(c), "compact: same count, theta; ordered");
    for (uint32_t i = 0; i < MAXSZ; i++) if (i < cn) { int ok = 0; for (uint32_t j = 0; j < MAXSZ; j++) if (j < n && keys[j] == ck[i] && sums[j] == cs[i]) ok = 1; ASSERT(ok, "compact exposes the same (key, summary) pairs"); if (i > 0) ASSERT(ck[i - 1] < ck[i], "ordered compact form ascending by key"); }
    w_ctup_delete(c);
    uint32_t t = ND_U32(); void* f = w_tup_filter(s, t); ASSERT(f != 0, "filter accepted");
    uint32_t fn = w_ctup_entries(f, ck, cs, MAXSZ + 1); uint32_t want = 0;
    for (uint32_t j = 0; j < MAXSZ; j++) if (j < n && sums[j] >= t) want++;
    ASSERT(fn == want, "filter keeps exactly the entries satisfying the predicate");
    for (uint32_t i = 0; i < MAXSZ; i++) if (i < fn) ASSERT(cs[i] >= t, "filtered entries satisfy the predicate");
    w_ctup_delete(f); }
#endif
  w_tup_delete(s);
  WITNESS();
}
