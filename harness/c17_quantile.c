/* C17 (quantile clause on digests made of singleton centroids — every stream shorter than the first compression that merges anything, and the
 * tails of longer ones): tdigest<double>(k = 10) with NC centroids of weight 1 whose means are symbolic finite doubles in non-decreasing order
 * (the state merge() leaves), min / max the first / last mean. For every rank on the concrete grid j / (2 NC), j = 0..2 NC (it contains the
 * integer target weights and the exact half-way points between neighbouring centroids) get_quantile returns a number (never NaN) inside
 * [min, max], q(0) = min, q(1) = max, and q is non-decreasing along the grid. Ranks outside [0, 1] are refused. */
#include "harness.h"
#include "api.h"
static int finite_bits(uint64_t b) { return ((b >> 52) & 0x7ff) != 0x7ff; }
void harness(void) {
  void* s = w_td_new(10);
  ASSERT(s != 0, "construction");
  uint64_t mb[NC], w[NC];
  for (int i = 0; i < NC; i++) {
    mb[i] = ND_U64(); w[i] = 1;
    if (VERIF_RANDOM_MODE()) mb[i] = verif_double_to_bits((double)(int64_t)(mb[i] % 2001) - 1000.0 + (i ? verif_bits_to_double(mb[i - 1]) + 1000.0 : 0));
    ASSUME(finite_bits(mb[i]));
    if (i) ASSUME(verif_bits_to_double(mb[i - 1]) <= verif_bits_to_double(mb[i]));
  }
  ASSERT(w_td_inject(s, NC, mb, w, mb[0], mb[NC - 1]) == 0, "state injected");
  double mn = verif_bits_to_double(mb[0]), mx = verif_bits_to_double(mb[NC - 1]), prev = mn;
  for (int j = 0; j <= 2 * NC; j++) {
    double rank = (double)j / (double)(2 * NC);
    uint64_t qb = 0;
    ASSERT(w_td_quantile(s, verif_double_to_bits(rank), &qb) == 0, "quantile of a rank in [0, 1] is defined");
    double q = verif_bits_to_double(qb);
    ASSERT(q == q, "quantile is a number (not NaN)");
    ASSERT(q >= mn && q <= mx, "quantile within [min, max]");
    ASSERT(q >= prev, "quantile non-decreasing in the rank");
    if (j == 0) ASSERT(q == mn, "quantile(0) == min");
    if (j == 2 * NC) ASSERT(q == mx, "quantile(1) == max");
    prev = q; OBSERVE(qb);
  }
  uint64_t dummy = 0;
  ASSERT(w_td_quantile(s, verif_double_to_bits(1.5), &dummy) == 1 && w_td_quantile(s, verif_double_to_bits(-0.25), &dummy) == 1, "ranks outside [0, 1] are refused");
  w_td_delete(s);
  WITNESS();
}
