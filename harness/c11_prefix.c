/* C09 / C11 generic bytes-path harness for one sketch family FAM (kll, req, qs, cm, td, fi ...):
 *   image  = real serialize(HEADER) of a sketch built from NV symbolic values through the public API (shape concrete: sizes, counts)
 *   M == SIZE : the full image must deserialize to an observationally identical sketch that re-serializes to the same bytes (C09)
 *   M <  SIZE : the strict prefix, held in a heap object of exactly M bytes, must be rejected with an exception (C11);
 *   CORRUPT=p : byte p of the full image replaced by a symbolic value: exception or a usable sketch (getters + full iteration +
 *               re-serialization run inside w_<fam>_deser without any out-of-bounds access) */
#include "harness.h"
#include "api.h"
#include "randhook.h"
#ifdef USE_HASHMODEL
#include "hashmodel.h"
#endif
#include "../wrappers/views.h"
#define CAT_(a, b, c) a##b##c
#define CAT(a, b, c) CAT_(a, b, c)
#define IMAGE CAT(w_, FAM, _image)
#define DESER CAT(w_, FAM, _deser)
#ifndef VALMASK
#define VALMASK 0xffffffffULL
#endif
#ifndef HEADER
#define HEADER 0
#endif
#define CAP 256
void harness(void) {
  uint64_t vals[NV + 1];
  for (int i = 0; i < NV; i++) vals[i] = ND_U64() & VALMASK;
  uint8_t img[CAP]; for (int i = 0; i < CAP; i++) img[i] = (uint8_t)(0xA5 ^ i);
  struct gen_view a, b;
  int64_t size = IMAGE(img, CAP, vals, NV, HEADER, (void*)&a);
  OBSERVE(size);
  ASSERT(size == SIZE + HEADER, "image size is the documented/recorded size for this shape (header bytes + sketch bytes)");
  ASSERT(a.f[12] + HEADER == (uint64_t)size, "serialize(header) returns header + get_serialized_size_bytes() bytes");
  ASSERT(a.f[6] == a.f[0] && a.f[11] == a.f[1], "original: iterator yields num_retained entries whose weights sum to n");
#if defined(CORRUPT) && CORRUPT >= 0
  img[HEADER + CORRUPT] = ND_U8();
  const uint64_t m = (uint64_t)SIZE;
#else
  const uint64_t m = M;
#endif
  uint8_t* buf = malloc(m ? m : 1); ASSUME(buf != 0);
  for (uint64_t i = 0; i < CAP; i++) if (i < m) buf[i] = img[HEADER + i];
  int rc = DESER(m ? buf : buf + 1, m, (void*)&b);
  OBSERVE(rc);
#if defined(CORRUPT) && CORRUPT >= 0
  if (rc == 0) ASSERT(b.f[11] == b.f[1], "accepted corrupted image: iteration yields num_retained entries");
#else
  if (M < SIZE) { ASSERT(rc == 1, "a strict prefix of a valid image is rejected with an exception"); }
  else {
    ASSERT(rc == 0, "the full image deserializes");
    for (int i = 0; i < 14; i++) { ASSERT(a.f[i] == b.f[i] || (i == 9 || i == 10 || i == 12) , "restored sketch: same getters, retained items and weights"); OBSERVE(b.f[i]); }
    ASSERT(a.f[9] == b.f[9] && a.f[10] == b.f[10] && a.f[9] == (uint64_t)SIZE, "restored sketch re-serializes to the same bytes");
    for (int i = 0; i < HEADER; i++) ASSERT(img[i] == (uint8_t)(0xA5 ^ i) || img[i] == 0, "header bytes are reserved (left to the caller)");
  }
#endif
  free(buf);
  WITNESS();
}
