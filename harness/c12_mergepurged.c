/* C12 (merge / round trip of a sketch whose purge removed every counter). Such a sketch is reachable through the public API — 7 distinct items of
 * weight 1 into an 8-slot map: the purge at the 7th item subtracts the median (1) and removes every counter, leaving total weight 7, offset 1
 * and no active item (checked natively, see known_findings.txt) — and is built here by state injection with a SYMBOLIC total weight TA >= 1 and
 * a SYMBOLIC offset OA <= TA on an empty map.
 * MODE 0: sketch B holds one item with a symbolic weight and a symbolic injected offset. After B.merge(A) the total weight is the exact sum, the
 *         maximum error is the sum of the two offsets, an item of A's stream (true weight <= OA: it was purged) and B's item are bracketed.
 * MODE 1: A through serialize / deserialize(bytes) keeps its total weight and maximum error. */
#include "harness.h"
#include "api.h"
void harness(void) {
  void* a = w_fi_new(3, 3); void* b = w_fi_new(3, 3);
  uint64_t ta = ND_RANGE(1, 1000000), oa = ND_RANGE(0, 1000000);
  ASSUME(oa <= ta);
  w_fi_set_total(a, ta); w_fi_set_offset(a, oa);
  ASSERT(w_fi_total(a) == ta && w_fi_active(a) == 0 && w_fi_max_error(a) == oa, "injected state: every counter purged, total weight and offset kept");
#if MODE == 0
  uint64_t wb = ND_RANGE(1, 1000), ob = ND_RANGE(0, 1000000);
  ASSERT(w_fi_update(b, 100, wb) == 0, "update accepted");
  w_fi_set_offset(b, ob);
  ASSERT(w_fi_merge(b, a) == 0, "merge accepted");
  ASSERT(w_fi_total(b) == wb + ta, "total weight is the exact sum of all update weights after the merge");
  uint64_t me = w_fi_max_error(b);
  ASSERT(me == ob + oa, "maximum error == sum of the two accumulated offsets");
  { uint64_t lb = w_fi_lower(b, 1), ub = w_fi_upper(b, 1); ASSERT(lb == 0 && ub == me && ub >= oa, "an item of the merged-in stream (true weight <= its offset) stays below the upper bound"); }
  { uint64_t lb = w_fi_lower(b, 100), ub = w_fi_upper(b, 100); ASSERT(lb <= wb && wb <= ub && ub - lb == me, "the receiving sketch's item is bracketed"); }
  OBSERVE(me);
#else
  uint64_t total = 0, maxerr = 0;
  int r = w_fi_roundtrip(a, &total, &maxerr);
  ASSERT(r == 0, "round trip accepted");
  ASSERT(total == ta && maxerr == oa, "a round trip keeps the total weight and the maximum error");
  OBSERVE(total);
#endif
  w_fi_delete(a); w_fi_delete(b);
  WITNESS();
}
