/* C12 (unit level: the purge step every bound rests on): reverse_purge_hash_map<uint64_t, uint64_t> with 8 slots. NK concrete distinct keys with
 * chosen home slots (HOMES, checked against the map's own fmix64 placement; the spec picks patterns whose clusters wrap around the end of the
 * table) are inserted with SYMBOLIC values, then subtract_and_keep_positive_only(amount) runs with a SYMBOLIC amount: afterwards every key whose
 * value exceeded the amount is still found (the deletions' back-shifts never strand or double-process an entry) with exactly value - amount,
 * every other key is gone, the active count is the number of survivors and every surviving entry's recorded drift is consistent. */
#include "harness.h"
#include "api.h"
static const uint64_t keys[] = { KEYS };
static const uint32_t homes[] = { HOMES };
#define NK ((int)(sizeof(keys) / sizeof(keys[0])))
void harness(void) {
  void* m = w_rp_new(3, 3);
  ASSERT(m != 0, "construction");
  uint64_t v[NK];
  for (int i = 0; i < NK; i++) {
    ASSERT(w_rp_home(m, keys[i]) == homes[i], "key has the home slot the query was built for");
    v[i] = ND_RANGE(1, VERIF_RANDOM_MODE() ? 12 : 1000000);
    ASSERT(w_rp_insert(m, keys[i], v[i]) == 0, "insert below capacity accepted");
  }
  ASSERT(w_rp_num_active(m) == NK, "all keys active");
  uint64_t amount = ND_RANGE(0, VERIF_RANDOM_MODE() ? 12 : 1000000);
  ASSERT(w_rp_subtract(m, amount) == 0, "purge step does not throw");
  uint32_t alive = 0;
  for (int i = 0; i < NK; i++) {
    uint64_t g = w_rp_get(m, keys[i]);
    if (v[i] > amount) { alive++; ASSERT(g == v[i] - amount, "a key whose value exceeds the purge amount is still found, reduced by exactly the amount"); }
    else ASSERT(g == 0, "a key whose value does not exceed the purge amount is removed");
    OBSERVE(g);
  }
  ASSERT(w_rp_get(m, 0x5eedULL) == 0, "a key never inserted is not found");
  ASSERT(w_rp_num_active(m) == alive, "active count == number of survivors");
  uint32_t occ = 0; for (uint32_t s = 0; s < 8; s++) if (w_rp_state(m, s) > 0) occ++;
  ASSERT(occ == alive, "occupied slots == number of survivors");
  w_rp_delete(m);
  WITNESS();
}
