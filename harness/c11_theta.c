/* C11: strict prefixes and corrupted preamble bytes of valid compact-theta images (bytes path: deserialize and wrap).
 * Concrete per query: KIND (3: image written by the real serialize() [serial version 3]; 1, 2: legacy serial version 1 / 2 images
 *   written by the harness from the documented layout), N (entries), EST (theta < max), M (prefix length, or full size when CORRUPT),
 *   MODE (0 deserialize, 1 wrap), CORRUPT (byte position p >= 0: that byte is replaced by a symbolic value; -1: truncation).
 * Symbolic: hashes, theta, replacement byte. The prefix lives in a heap object of exactly M bytes: cbmc's pointer checks decide
 * "no byte outside the supplied buffer is touched". */
#include "harness.h"
#include "api.h"
#include "../wrappers/views.h"
#define MAX_THETA 0x7fffffffffffffffULL
#define SEED 9001ULL
static void put64(uint8_t* p, uint64_t v) { for (int i = 0; i < 8; i++) p[i] = (uint8_t)(v >> (8 * i)); }
static void put32(uint8_t* p, uint32_t v) { for (int i = 0; i < 4; i++) p[i] = (uint8_t)(v >> (8 * i)); }
void harness(void) {
  uint16_t sh = w_seed_hash(SEED);
  uint64_t HI = VERIF_RANDOM_MODE() ? 1000 : MAX_THETA;
  uint64_t theta = EST ? ND_RANGE(1, HI - 1) : MAX_THETA;
  uint64_t e[4];
  for (uint32_t i = 0; i < N; i++) { e[i] = ND_RANGE(1, HI); ASSUME(e[i] < theta); for (uint32_t j = 0; j < i; j++) ASSUME(e[j] < e[i]); }
  uint8_t img[64]; int64_t size;
  for (int i = 0; i < 64; i++) img[i] = 0;
#if KIND == 3
  struct S_class_datasketches__compact_theta_sketch_alloc* c = w_cts_make(N == 0 && !EST, 1, sh, theta, e, N);
  size = w_cts_serialize(c, 0, 0, img, 64);
  ASSERT(size > 0 && (uint64_t)size == w_cts_ser_size(c, 0), "serialize returns exactly get_serialized_size_bytes() bytes");
  w_cts_delete(c);
#elif KIND == 4   /* serial version 3 image written from the documented layout (needed for estimation mode: with a symbolic theta the
                     real serializer's preamble size is not a symex constant) */
  { int pl = (N == 0 && !EST) ? 1 : ((N == 1 && !EST) ? 1 : (EST ? 3 : 2));
    img[0] = (uint8_t)pl; img[1] = 3; img[2] = 3; img[5] = (uint8_t)((1 << 1) | (1 << 3) | (1 << 4) | ((N == 0 && !EST) ? (1 << 2) : 0)); img[6] = (uint8_t)sh; img[7] = (uint8_t)(sh >> 8);
    if (N == 1 && !EST) { put64(img + 8, e[0]); size = 16; }
    else if (N == 0 && !EST) size = 8;
    else { put32(img + 8, N); if (EST) put64(img + 16, theta); for (uint32_t i = 0; i < N; i++) put64(img + 8 * pl + 8 * i, e[i]); size = 8 * pl + 8 * N; } }
#elif KIND == 1   /* serial version 1: 3 preamble longs always; bytes: [0]=3 [1]=1 [2]=3(type); u32 count at 8; u64 theta at 16; entries at 24 */
  img[0] = 3; img[1] = 1; img[2] = 3; put32(img + 8, N); put64(img + 16, theta); for (uint32_t i = 0; i < N; i++) put64(img + 24 + 8 * i, e[i]);
  size = (N == 0 && !EST) ? 24 : 24 + 8 * N;
#else             /* serial version 2: preamble longs 1 (empty), 2 (exact), 3 (estimation); seed hash at bytes 6..7 */
  img[0] = (N == 0 && !EST) ? 1 : (EST ? 3 : 2); img[1] = 2; img[2] = 3; img[6] = (uint8_t)sh; img[7] = (uint8_t)(sh >> 8);
  if (img[0] >= 2) put32(img + 8, N);
  if (img[0] == 3) put64(img + 16, theta);
  for (uint32_t i = 0; i < N; i++) put64(img + 8 * img[0] + 8 * i, e[i]);
  size = 8 * img[0] + 8 * N;
#endif
  OBSERVE(size);
#if CORRUPT >= 0
  ASSERT(CORRUPT < size, "harness: corrupt position inside the image");
  img[CORRUPT] = ND_U8();
  const uint64_t m = (uint64_t)size;
#else
#ifdef FULL
  const uint64_t m = (uint64_t)size;      /* the complete image: the reader must report exactly the documented content (C09 / C10) */
#else
  ASSERT(M < size, "harness: M is a strict prefix length of this image");
  const uint64_t m = M;
#endif
#endif
  uint8_t* buf = malloc(m ? m : 1);
  ASSUME(buf != 0);
  for (uint64_t i = 0; i < 64; i++) if (i < m) buf[i] = img[i];
  struct theta_view v;
#if MODE == 0
  int rc = w_theta_deser(m ? buf : buf + 1, m, SEED, (void*)&v);
#else
  int rc = w_theta_wrap(m ? buf : buf + 1, m, SEED, (void*)&v);
#endif
  OBSERVE(rc);
#if CORRUPT >= 0
  /* corrupted preamble byte: an exception, or a usable sketch (getters and a full iteration ran inside the wrapper without touching
   * memory outside the buffer - decided by cbmc's pointer checks); the iterator must deliver exactly num_retained entries */
  if (rc == 0) ASSERT(v.iterated == v.num, "accepted image: iteration yields num_retained entries");
#elif defined(FULL)
  ASSERT(rc == 0, "the complete image is accepted");
  ASSERT(v.num == N && v.iterated == N && v.theta == theta && (int)v.is_empty == (N == 0 && !EST), "reader reports the documented count, theta and emptiness");
  for (uint32_t i = 0; i < N; i++) { ASSERT(v.e[i] == e[i], "reader returns the documented entries in order"); OBSERVE(v.e[i]); }
  ASSERT(v.seed_hash == sh, "seed hash as documented (computed from the seed for serial version 1)");
#else
  ASSERT(rc == 1, "a strict prefix of a valid image is rejected with an exception");
#endif
  free(buf);
  WITNESS();
}
