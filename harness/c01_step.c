/* C01 S1/S2: one operation of update_theta_sketch from an ARBITRARY REACHABLE table state.
 * Shape (concrete per query): LGC (lg table size), LGN (lg nominal size), RF, MASK (which slots are occupied; NUM = popcount).
 * Contents (symbolic): theta0, the NUM keys (each assumed findable in its slot by the real find()),
 * the hash of the new item (hash function is a harness model), OP:
 *   0 update(uint64)  1 trim  2 reset  3 compact(ordered)  4 compact(unordered)  5 copy-construct */
#include "hashmodel.h"
#include "api.h"
#define MAX_THETA 0x7fffffffffffffffULL
#define SIZE (1u << LGC)
#define K (1u << LGN)
#define MAXSZ (1u << (LGN + 1))
static int in_set(const uint64_t* a, uint32_t n, uint64_t v) { int r = 0; for (uint32_t i = 0; i < n; i++) if (a[i] == v) r = 1; return r; }
void harness(void) {
  uint64_t start_theta = ND_RANGE(1, MAX_THETA);
  /* theta is only lowered by rebuild(), which needs the full-size table and leaves k entries: theta < start => NUM >= k */
#if OP == 2 && defined(ANYTHETA)
  uint64_t theta0 = ND_RANGE(1, start_theta);   /* reset() is total: checked from ANY theta, also where the table keeps its size */
#else
  uint64_t theta0 = (NUM >= K && LGC == LGN + 1) ? ND_RANGE(1, start_theta) : start_theta;
#endif
  uint64_t seed = ND_U64();
  struct S_class_datasketches__update_theta_sketch_alloc* s = w_uts_new(LGC, LGN, RF, 1.0f, theta0, seed);
  /* pre-state: concrete occupancy MASK, symbolic keys; representation invariant = every key is found by the
   * table's own lookup in exactly its slot (implies distinctness and probe reachability; superset of the reachable states) */
  uint64_t pre[SIZE + 1]; uint32_t slot_of[SIZE + 1]; uint32_t np = 0;
  for (uint32_t i = 0; i < SIZE; i++) if (((uint64_t)MASK >> i) & 1) {
    uint64_t v = ND_RANGE(1, MAX_THETA);
    if (VERIF_RANDOM_MODE()) { v = (v & ~(uint64_t)(SIZE - 1)) | i; if (v >= theta0) v = (v % theta0 & ~(uint64_t)(SIZE - 1)) | i; }
    ASSUME(v != 0 && v < theta0);
    w_uts_set_slot(s, i, v); pre[np] = v; slot_of[np] = i; np++;
  }
  for (uint32_t j = 0; j < NUM; j++) { int found; uint32_t at = w_uts_find(s, pre[j], &found); ASSUME(found && at == slot_of[j]); }
  w_uts_set_num(s, NUM);
  int was_empty = NUM == 0 ? ND_BOOL() : 0;
  if (was_empty) ASSUME(theta0 == start_theta);   /* never updated: theta still at its start value */
  w_uts_set_empty(s, (uint8_t)was_empty);
  /* the public theta of an empty sketch is MAX_THETA by definition (theta_sketch_impl.hpp get_theta64) */
  ASSERT(w_uts_num(s) == NUM && w_uts_theta(s) == (was_empty ? MAX_THETA : theta0), "injected state visible through the public getters");

  uint64_t h = 0; int offered = 0;
#if OP == 0
  uint64_t item = ND_U64();
  int rc = w_uts_update_u64(s, item);
  ASSERT(rc == 0, "update does not throw");
  ASSERT(hm_calls == 1 && hm[0].len == 8 && hm[0].seed == seed && hm_key_u64(0) == item, "update(uint64) hashes the 8 little-endian bytes of the value with the sketch seed");
  h = hm[0].h1 >> 1; offered = 1;
  uint64_t theta1 = w_uts_raw_theta(s); uint32_t num1 = w_uts_num(s); uint32_t size1 = 1u << w_uts_lg_cur(s);
  ASSERT(!w_uts_is_empty(s), "not empty after an update");
  ASSERT(w_uts_theta(s) == theta1, "public theta == table theta once not empty");
#elif OP == 1
  int rc = w_uts_trim(s); ASSERT(rc == 0, "trim does not throw");
  uint64_t theta1 = w_uts_raw_theta(s); uint32_t num1 = w_uts_num(s); uint32_t size1 = 1u << w_uts_lg_cur(s);
  ASSERT(num1 <= K, "trim leaves at most k entries");
  ASSERT(w_uts_theta(s) == (was_empty ? MAX_THETA : theta1), "public theta after trim");
  ASSERT((int)w_uts_is_empty(s) == was_empty, "trim keeps emptiness");
#elif OP == 2
  int rc = w_uts_reset(s); ASSERT(rc == 0, "reset does not throw");
  ASSERT(w_uts_is_empty(s) && w_uts_num(s) == 0 && w_uts_theta(s) == MAX_THETA, "reset: empty, no entries, theta back to the start value for p=1");
  ASSERT(w_uts_raw_theta(s) == MAX_THETA, "reset: the table's own theta is back at the start value (the public getter masks it while the sketch is empty)");
  { /* ... and stays usable: one more update behaves like on a fresh sketch */
    uint64_t item = ND_U64(); ASSERT(w_uts_update_u64(s, item) == 0, "update after reset accepted");
    uint64_t hh = hm[hm_last].h1 >> 1;
    ASSERT(w_uts_theta(s) == MAX_THETA && w_uts_num(s) == ((hh != 0 && hh < MAX_THETA) ? 1u : 0u) && !w_uts_is_est(s), "after reset + one update: exact mode, the hash retained");
  }
  ASSERT(w_uts_lg_cur(s) == w_start_lg_size(LGN, RF), "reset: table back to the starting size");
  uint32_t rs = 1u << w_uts_lg_cur(s);
  
  w_uts_delete(s); WITNESS(); return;
#else
  /* compact / copy: observational equality with the source */
  uint64_t out[SIZE + 1]; uint32_t n;
  uint64_t theta1 = theta0; uint32_t num1 = NUM; uint32_t size1 = SIZE;
#if OP == 5
  struct S_class_datasketches__update_theta_sketch_alloc* c = w_uts_copy(s);
  n = w_uts_entries(c, out, SIZE + 1);
  ASSERT(w_uts_theta(c) == w_uts_theta(s) && w_uts_raw_theta(c) == theta0 && w_uts_num(c) == NUM && (int)w_uts_is_empty(c) == was_empty, "copy: same theta, count, emptiness");
  /* independence: mutate the source, the copy must not change */
  w_uts_reset(s);
  uint64_t out2[SIZE + 1]; uint32_t n2 = w_uts_entries(c, out2, SIZE + 1);
  ASSERT(n2 == n && w_uts_raw_theta(c) == theta0, "copy independent of the source");
  for (uint32_t i = 0; i < SIZE; i++) if (i < n) ASSERT(out2[i] == out[i], "copy independent of the source (entries)");
  w_uts_delete(c);
#else
  struct S_class_datasketches__compact_theta_sketch_alloc* c = w_uts_compact(s, OP == 3);
  ASSERT(c != 0, "compact does not throw");
  n = w_cts_entries(c, out, SIZE + 1);
  ASSERT(w_cts_theta(c) == w_uts_theta(s) && w_cts_num(c) == NUM && (int)w_cts_is_empty(c) == was_empty, "compact: same theta, count, emptiness");
  ASSERT((int)w_cts_is_ordered(c) == (OP == 3 || NUM <= 1), "ordered flag as requested (a sketch of <= 1 entry is trivially ordered)");
  if (OP == 3) for (uint32_t i = 1; i < SIZE; i++) if (i < n) ASSERT(out[i - 1] < out[i], "ordered compact form is strictly ascending");
  w_cts_delete(c);
#endif
  ASSERT(n == NUM, "number of entries seen by the iterator == num_retained");
  for (uint32_t i = 0; i < SIZE; i++) if (i < n) { ASSERT(in_set(pre, NUM, out[i]), "no extra entry"); OBSERVE(out[i]); }
  for (uint32_t i = 0; i < NUM; i++) ASSERT(in_set(out, n, pre[i]), "no missing entry");
  w_uts_delete(s); WITNESS(); return;
#endif

#if OP <= 1
  OBSERVE(theta1); OBSERVE(num1); OBSERVE(size1);
  ASSERT(theta1 <= theta0, "theta never increases");
  ASSERT(size1 <= MAXSZ && size1 >= SIZE, "table size within [current, 2k]");
  /* post-state: entry set == { x in pre U {h} : x < theta1 }, each exactly once, each findable */
  uint32_t nz1 = 0; uint64_t post[MAXSZ];
  for (uint32_t sl = 0; sl < MAXSZ; sl++) if (sl < size1) {
    uint64_t v = w_uts_slot(s, sl);
    if (v) {
      ASSERT(v < theta1, "every retained hash is strictly below theta");
      int found; uint32_t at = w_uts_find(s, v, &found);
      ASSERT(found && at == sl, "every retained hash is found by the table's own lookup in its slot (no duplicates, probe reachability)");
      ASSERT(in_set(pre, NUM, v) || (offered && v == h && h != 0 && h < theta0), "no extra entry: retained hashes come from the pre-state or the offered item");
      if (nz1 < MAXSZ) post[nz1] = v;
      nz1++;
    }
  }
  ASSERT(nz1 == num1, "num_retained == number of non-empty slots");
  for (uint32_t i = 0; i < NUM; i++) if (pre[i] < theta1) ASSERT(in_set(post, nz1, pre[i]), "no missing entry: every earlier hash below theta is still retained");
  if (offered && h != 0 && h < theta1) ASSERT(in_set(post, nz1, h), "the offered hash is retained when below theta");
  if (theta1 < theta0) {
    ASSERT(num1 == K, "theta is lowered only by a rebuild that leaves exactly k entries");
    ASSERT(in_set(pre, NUM, theta1) || (offered && theta1 == h), "the new theta is one of the hashes seen");
  }
  if (theta1 < start_theta) ASSERT(num1 >= K, "theta below the starting value only while >= k hashes are retained");
  /* public iterator agrees with the table */
  uint64_t it[MAXSZ + 1]; uint32_t n = w_uts_entries(s, it, MAXSZ + 1);
  ASSERT(n == num1, "iterator yields num_retained entries");
  for (uint32_t i = 0; i < MAXSZ; i++) if (i < n) ASSERT(in_set(post, nz1, it[i]), "iterator yields table entries");
  ASSERT((int)w_uts_is_est(s) == (theta1 < MAX_THETA && !w_uts_is_empty(s)), "estimation mode iff theta < max and not empty");
  w_uts_delete(s);
  WITNESS();
#endif
}
