/* C09 / C11 for HLL_4 images (lg_k = 4, HLL mode, with an aux exception): image = real serialize_compact (KIND 0) / serialize_updatable
 * (KIND 1) of a sketch whose registers received two concrete coupons (one of them an aux exception: value 20 at cur_min 0) and one
 * symbolic coupon. M == SIZE: full image round trip (registers, cur_min, re-serialized bytes); M < SIZE: strict prefix in an exact-size
 * heap buffer must be rejected without touching memory outside it. */
#include "harness.h"
#include "api.h"
#include "../wrappers/views.h"
#include "randhook.h"
#define CAP 128
void harness(void) {
  uint64_t c[3]; c[0] = (20u << 26) | 3; c[1] = (2u << 26) | 5;
  c[2] = ((uint64_t)ND_RANGE(1, 63) << 26) | ND_RANGE(0, 15);
  uint8_t img[CAP]; for (int i = 0; i < CAP; i++) img[i] = 0xEE;
  struct gen_view a, b;
  int64_t size = w_hll4_image(img, CAP, c, 3, KIND, (void*)&a);
  OBSERVE(size);
  ASSERT(size == SIZE, "image size is the recorded size for this shape");
  ASSERT(a.f[12] == (uint64_t)size, "advertised serialization size == actual size");
  const uint64_t m = M;
  uint8_t* buf = malloc(m ? m : 1); ASSUME(buf != 0);
  for (uint64_t i = 0; i < CAP; i++) if (i < m) buf[i] = img[i];
  int rc = w_hll4_deser(m ? buf : buf + 1, m, KIND, (void*)&b);
  OBSERVE(rc);
  if (M < SIZE) { ASSERT(rc == 1, "a strict prefix of a valid image is rejected with an exception"); }
  else {
    ASSERT(rc == 0, "the full image deserializes");
    ASSERT(a.f[4] == b.f[4] && a.f[7] == b.f[7] && a.f[13] == b.f[13] && a.f[14] == b.f[14], "restored sketch: same lg_k, emptiness, type, mode");
    ASSERT(a.f[5] == b.f[5] && a.f[2] == b.f[2] && a.f[3] == b.f[3], "restored sketch: same registers, cur_min, num_at_cur_min");
    ASSERT(a.f[9] == b.f[9] && a.f[10] == b.f[10], "restored sketch re-serializes to the same bytes");
  }
  free(buf);
  WITNESS();
}
