/* C07 (iteration clauses) for the classic quantiles sketch with an INJECTED structure for (k, n): base buffer = n mod 2k items,
 * level h present iff bit h of n/(2k); items symbolic. The public iterator must yield exactly num_retained entries, the entries of
 * level h carry weight 2^(h+1), base-buffer entries weight 1, and the weights sum to n. */
#include "harness.h"
#include "api.h"
#include "randhook.h"
#define CAP 24
void harness(void) {
  int32_t vals[CAP]; for (int i = 0; i < CAP; i++) vals[i] = (int32_t)ND_U32();
  void* s = w_qs_inject(KK, NN, vals);
  ASSERT(s != 0 && w_qs_n(s) == NN, "injected n");
  int32_t it[CAP]; uint64_t w[CAP]; int32_t cnt = w_qs_items(s, it, w, CAP);
  uint32_t bb = NN % (2 * KK); uint64_t bits = NN / (2 * KK); uint32_t exp = bb; uint64_t expw = bb;
  for (uint32_t h = 0; h < 8; h++) if ((bits >> h) & 1) { exp += KK; expw += (uint64_t)KK << (h + 1); }
  ASSERT(expw == NN, "harness: layout weights sum to n");
  ASSERT(cnt == (int32_t)exp && w_qs_num_retained(s) == exp, "iteration yields exactly num_retained entries");
  uint64_t sum = 0; uint32_t vi = 0;
  for (uint32_t i = 0; i < bb; i++) { ASSERT(w[vi] == 1 && it[vi] == vals[vi], "base-buffer entries carry weight 1"); sum += w[vi]; vi++; }
  for (uint32_t h = 0; h < 8; h++) if ((bits >> h) & 1) for (uint32_t i = 0; i < KK; i++) {
    ASSERT(vi < CAP && w[vi] == ((uint64_t)2 << h) && it[vi] == vals[vi], "entries of level h carry weight 2^(h+1)"); sum += w[vi]; OBSERVE(w[vi]); vi++; }
  ASSERT(sum == NN, "iterated weights sum to n");
  w_qs_delete(s);
  WITNESS();
}
