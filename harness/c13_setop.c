/* C13: tuple set operations on two symbolic compact_tuple_sketch<uint32> operands, compared with the definition: keys selected exactly as the Theta
 * operation does (theta = min, hashes below theta, union / intersection / difference of the key sets), summaries: union and intersection combine
 * the summaries of a key held by both inputs with the policy in presentation order (3 * first + second: order is observable), a key held by one
 * union input keeps its summary, A-not-B keeps A's summary.
 * Concrete per query: OP (0 union, 1 intersection, 2 a-not-b), NA, NB (entry counts), AORD, BORD, RORD. Symbolic: thetas, hashes, summaries. */
#include "harness.h"
#include "api.h"
#define MAX_THETA 0x7fffffffffffffffULL
#define SEED 9001ULL
struct opnd { uint32_t n; int ordered, is_empty; uint64_t theta; uint64_t e[4]; uint32_t s[4]; void* sk; };
static int idx(const uint64_t* a, uint32_t n, uint64_t v) { int r = -1; for (uint32_t i = 0; i < 4; i++) if (i < n && a[i] == v) r = (int)i; return r; }
static void make(struct opnd* o, uint32_t n, int ordered, uint16_t sh) {
  uint64_t HI = VERIF_RANDOM_MODE() ? 24 : MAX_THETA;
  o->n = n; o->ordered = ordered || n <= 1;
  o->is_empty = (n == 0) ? ND_BOOL() : 0;
  o->theta = ND_BOOL() ? MAX_THETA : ND_RANGE(1, HI);
  if (o->is_empty) o->theta = MAX_THETA;
  for (uint32_t i = 0; i < n; i++) {
    o->e[i] = ND_RANGE(1, HI); ASSUME(o->e[i] < o->theta); o->s[i] = ND_U32();
    for (uint32_t j = 0; j < i; j++) { ASSUME(o->e[j] != o->e[i]); if (ordered) ASSUME(o->e[j] < o->e[i]); }
  }
  o->sk = w_ctup_make((uint8_t)o->is_empty, (uint8_t)o->ordered, sh, o->theta, o->e, o->s, n);
}
void harness(void) {
  uint16_t sh = w_seed_hash(SEED);
  struct opnd A, B; make(&A, NA, AORD, sh); make(&B, NB, BORD, sh);
  void* c;
#if OP == 0
  void* u = w_ttu_new_unit(ULG, ULG - 1, MAX_THETA, SEED);   /* 2^ULG slots, k = 2^(ULG-1) >= NA + NB: never trimmed */
  ASSERT(w_ttu_update(u, A.sk) == 0 && w_ttu_update(u, B.sk) == 0, "union update accepts operands with the right seed");
  c = w_ttu_result(u, RORD); w_ttu_delete(u);
#elif OP == 1
  void* t = w_tti_new(SEED);
  ASSERT(w_tti_update(t, A.sk) == 0 && w_tti_update(t, B.sk) == 0, "intersection update accepts valid operands");
  c = w_tti_result(t, RORD); w_tti_delete(t);
#else
  c = w_tanb(SEED, A.sk, B.sk, RORD);
#endif
  ASSERT(c != 0, "operation returns a result (no exception)");
  uint64_t rt = w_ctup_theta(c); uint32_t rn = w_ctup_num(c); int rempty = w_ctup_is_empty(c), rord = w_ctup_is_ordered(c);
  uint64_t rk[8]; uint32_t rs[8];
  for (uint32_t i = 0; i < 8; i++) if (i < rn) { rk[i] = w_ctup_key(c, i); rs[i] = w_ctup_summary(c, i); }
  ASSERT(w_ctup_seed_hash(c) == sh, "result carries the seed hash");
  /* ---- oracle ---- */
  uint64_t theta; int empty; uint64_t ek[8]; uint32_t es[8]; uint32_t ne = 0;
#if OP == 0
  empty = A.is_empty && B.is_empty;
  theta = MAX_THETA; if (!A.is_empty && A.theta < theta) theta = A.theta; if (!B.is_empty && B.theta < theta) theta = B.theta;
  for (uint32_t i = 0; i < NA; i++) if (A.e[i] < theta) { int j = idx(B.e, NB, A.e[i]); ek[ne] = A.e[i]; es[ne] = j >= 0 ? A.s[i] * 3u + B.s[j] : A.s[i]; ne++; }
  for (uint32_t i = 0; i < NB; i++) if (B.e[i] < theta && idx(A.e, NA, B.e[i]) < 0) { ek[ne] = B.e[i]; es[ne] = B.s[i]; ne++; }
#elif OP == 1
  theta = (A.is_empty || B.is_empty) ? MAX_THETA : (A.theta < B.theta ? A.theta : B.theta);
  for (uint32_t i = 0; i < NA; i++) if (A.e[i] < theta) { int j = idx(B.e, NB, A.e[i]); if (j >= 0) { ek[ne] = A.e[i]; es[ne] = A.s[i] * 3u + B.s[j]; ne++; } }
  empty = A.is_empty || B.is_empty || (ne == 0 && theta == MAX_THETA && (NA > 0 && NB > 0));
#else
  if (A.is_empty || (NA > 0 && B.is_empty)) { theta = A.theta; for (uint32_t i = 0; i < NA; i++) { ek[ne] = A.e[i]; es[ne] = A.s[i]; ne++; } empty = A.is_empty; }
  else {
    theta = A.theta < B.theta ? A.theta : B.theta;
    for (uint32_t i = 0; i < NA; i++) if (A.e[i] < theta && idx(B.e, NB, A.e[i]) < 0) { ek[ne] = A.e[i]; es[ne] = A.s[i]; ne++; }
    empty = (ne == 0 && theta == MAX_THETA);
  }
#endif
  OBSERVE(rt); OBSERVE(rn); OBSERVE(rempty);
  ASSERT(rt == theta, "result theta == minimum input theta, as the Theta operation");
  ASSERT(rempty == empty, "result emptiness as the Theta operation");
  ASSERT(rn == ne, "result has exactly the keys of the set expression below theta");
  for (uint32_t i = 0; i < 8; i++) if (i < ne) {
    int found = 0; uint32_t sum = 0;
    for (uint32_t j = 0; j < 8; j++) if (j < rn && rk[j] == ek[i]) { found++; sum = rs[j]; }
    ASSERT(found == 1, "every selected key appears exactly once in the result");
    ASSERT(sum == es[i], "summary == policy over the inputs holding the key, in presentation order (A-not-B: A's summary)");
  }
  for (uint32_t i = 0; i < 8; i++) if (i < rn) { OBSERVE(rk[i]); OBSERVE(rs[i]); }
  if (rord) for (uint32_t i = 1; i < 8; i++) if (i < rn) ASSERT(rk[i - 1] < rk[i], "a result flagged ordered is strictly ascending");
  if (RORD) ASSERT(rord, "ordered result when requested");
  w_ctup_delete(c); w_ctup_delete(A.sk); w_ctup_delete(B.sk);
  WITNESS();
}
