/* C01 H2: canonicalisation of every update overload, public API only (builder, lg_k = 5, real table of 32 slots).
 * TYPE (concrete): 0 u64, 1 i64, 2 u32, 3 i32, 4 u16, 5 i16, 6 u8, 7 i8, 8 double, 9 float, 10 bytes(len 1..8)
 * One symbolic update of that type (dedup and multi-step behaviour is covered by c01_step.c); the hash function is a harness model that records the bytes it is given. */
#include "hashmodel.h"
#include "api.h"
#define MAX_THETA 0x7fffffffffffffffULL
static uint64_t canon(int type, uint64_t raw, uint64_t* len) {
  *len = 8;
  switch (type) {
    case 0: case 1: return raw;
    case 2: case 3: return (uint64_t)(int64_t)(int32_t)(uint32_t)raw;   /* uint32 is treated as int32 and sign-extended (Java compatibility) */
    case 4: case 5: return (uint64_t)(int64_t)(int16_t)(uint16_t)raw;
    case 6: case 7: return (uint64_t)(int64_t)(int8_t)(uint8_t)raw;
    case 8: { double d = verif_bits_to_double(raw); if (d == 0.0) return 0; if (d != d) return 0x7ff8000000000000ULL; return raw; }
    case 9: { float f = verif_bits_to_float((uint32_t)raw); double d = (double)f; if (d == 0.0) return 0; if (d != d) return 0x7ff8000000000000ULL; return verif_double_to_bits(d); }
  }
  return raw;
}
static int do_update(struct S_class_datasketches__update_theta_sketch_alloc* s, uint64_t raw, uint64_t blen) {
#if TYPE == 0
  return w_uts_update_u64(s, raw);
#elif TYPE == 1
  return w_uts_update_i64(s, raw);
#elif TYPE == 2
  return w_uts_update_u32(s, (uint32_t)raw);
#elif TYPE == 3
  return w_uts_update_i32(s, (uint32_t)raw);
#elif TYPE == 4
  return w_uts_update_u16(s, (uint16_t)raw);
#elif TYPE == 5
  return w_uts_update_i16(s, (uint16_t)raw);
#elif TYPE == 6
  return w_uts_update_u8(s, (uint8_t)raw);
#elif TYPE == 7
  return w_uts_update_i8(s, (uint8_t)raw);
#elif TYPE == 8
  return w_uts_update_f64(s, verif_bits_to_double(raw));
#elif TYPE == 9
  return w_uts_update_f32(s, verif_bits_to_float((uint32_t)raw));
#else
  uint8_t b[8]; for (int i = 0; i < 8; i++) b[i] = (uint8_t)(raw >> (8 * i));
  return w_uts_update_bytes(s, b, blen);
#endif
}
void harness(void) {
  uint64_t seed = ND_U64();
  /* p is concrete per query (PBITS): with a symbolic p the builder's argument check makes the returned pointer symbolic and symex
   * can no longer tell that the 64-slot table is far from resize()/rebuild() */
  float p = verif_bits_to_float(PBITS);
  struct S_class_datasketches__update_theta_sketch_alloc* s = w_uts_build(5, RF, p, seed);
  ASSERT(s != 0, "builder accepts lg_k=5, 0<p<=1");
  uint64_t start = w_start_theta_from_p(p);
  ASSERT(w_uts_is_empty(s) && w_uts_num(s) == 0 && w_uts_theta(s) == MAX_THETA && w_uts_lg_k(s) == 5, "fresh sketch: empty, public theta = max");
  ASSERT(w_uts_raw_theta(s) == start && start <= MAX_THETA, "fresh sketch: table theta = start value for p");
  uint64_t exp[2]; uint32_t nexp = 0;
  for (int u = 0; u < 1; u++) {   /* one update: a second one makes num_entries_ symbolic and symex then explores resize()/rebuild() of the 32-slot table */
    uint64_t raw = ND_U64();
    uint64_t blen = (TYPE == 10) ? ND_RANGE(1, 8) : 8;
    unsigned calls0 = hm_calls;
    int rc = do_update(s, raw, blen);
    ASSERT(rc == 0, "update does not throw");
    ASSERT(hm_calls == calls0 + 1 && hm_last >= 0, "exactly one hash evaluation per update");
    uint64_t len; uint64_t c = canon(TYPE, raw, &len);
    if (TYPE == 10) { len = blen; c = blen == 8 ? raw : (raw & ((UINT64_C(1) << (8 * blen)) - 1)); }
    ASSERT(hm[hm_last].len == len && hm[hm_last].seed == seed, "hash is given the documented length and the sketch seed");
    ASSERT(hm_key_u64(hm_last) == c, "hash is given the canonical little-endian byte image of the value");
    uint64_t h = hm[hm_last].h1 >> 1;
    if (h != 0 && h < start && !(nexp == 1 && exp[0] == h)) exp[nexp++] = h;
    ASSERT(!w_uts_is_empty(s), "not empty after an update");
    OBSERVE(c); OBSERVE(h);
  }
  /* the retained set is read with the table's own lookup and counter (iterating a 64-slot table with symbolic content costs
   * 64x64 unrolled iterations; the public iterator is checked in c01_step.c) */
  ASSERT(w_uts_num(s) == nexp, "retained count == number of distinct hashes below theta");
  if (nexp) { int found; w_uts_find(s, exp[0], &found); ASSERT(found, "the 63-bit hash below theta is retained"); }
  ASSERT(w_uts_raw_theta(s) == start && w_uts_theta(s) == start, "theta unchanged below nominal size");
  ASSERT((int)w_uts_is_est(s) == (start < MAX_THETA), "estimation mode iff theta < max");
  if (start == MAX_THETA) ASSERT(w_uts_estimate(s) == (double)nexp, "estimate exact when p = 1 and the stream fits");
  w_uts_delete(s);
  WITNESS();
}
