/* C07 (iteration clauses) for kll_sketch<int32> with INJECTED level populations POPS (concrete; may contain empty levels, including an
 * empty level 0 as left behind by a merge), items symbolic: the iterator yields num_retained entries, level h entries carry weight 2^h,
 * weights sum to n; the sorted view has the same total weight. */
#include "harness.h"
#include "api.h"
#include "randhook.h"
static const uint32_t pops[] = { POPS };
#define NL (sizeof(pops) / sizeof(pops[0]))
#define CAP 10
void harness(void) {
  int32_t vals[CAP]; for (int i = 0; i < CAP; i++) vals[i] = (int32_t)ND_U32();
  void* s = w_kll_inject(8, pops, NL, vals);
  uint32_t total = 0; uint64_t n = 0; for (unsigned h = 0; h < NL; h++) { total += pops[h]; n += (uint64_t)pops[h] << h; }
  ASSERT(s != 0 && w_kll_n(s) == n && w_kll_num_retained(s) == total, "injected n and retained count visible through the getters");
  int32_t it[CAP]; uint64_t w[CAP]; int32_t cnt = w_kll_items(s, it, w, CAP);
  ASSERT(cnt == (int32_t)total, "iteration yields exactly num_retained entries");
  uint64_t sum = 0; uint32_t vi = 0;
  for (unsigned h = 0; h < NL; h++) for (uint32_t i = 0; i < pops[h]; i++) {
    ASSERT(w[vi] == ((uint64_t)1 << h), "entries of level h carry weight 2^h");
    ASSERT(it[vi] == vals[vi], "entries are the retained items in level order");
    sum += w[vi]; OBSERVE(w[vi]); vi++;
  }
  ASSERT(sum == n, "iterated weights sum to n");
  w_kll_delete(s);
  WITNESS();
}
