/* C19: var_opt_sketch over an instrumented item type (k = 2). A gets NA weighted items (concrete weights; with NA > k the sketch has left
 * its warm-up phase: random draws are nondeterministic), B gets NB. SCRIPT: 0 copy-assign B onto A, 1 move-assign, 2 copy-construct
 * from A then destroy, 3 reset A. Then one more update of A and destruction of everything: every constructed item is destroyed exactly
 * once (live count 0, never negative). */
#include "harness.h"
#include "api.h"
#include "randhook.h"
static long live, ctors, dtors; static int negative, phantom_dtor, double_ctor;
/* address-level tracking: a destructor may only run on storage that currently holds a constructed item, a constructor only on storage that does not
 * (a leaked item and a destructor call on raw storage would otherwise cancel out in the counters) */
#define NLIVE 24
static const uint8_t* livep[NLIVE];
void verif_item_ctor(uint8_t* self) {
  live++; ctors++; int done = 0;
  for (int i = 0; i < NLIVE; i++) if (livep[i] == self) double_ctor = 1;
  for (int i = 0; i < NLIVE; i++) if (!done && livep[i] == 0) { livep[i] = self; done = 1; }
}
void verif_item_dtor(uint8_t* self) {
  live--; dtors++; if (live < 0) negative = 1; int found = 0;
  for (int i = 0; i < NLIVE; i++) if (!found && livep[i] == self) { livep[i] = 0; found = 1; }
  if (!found) phantom_dtor = 1;
}
void harness(void) {
  void* a = w_vi_new(2); void* b = w_vi_new(2);
  for (int i = 0; i < NA; i++) ASSERT(w_vi_update(a, 10 + i, 1.0 + i) == 0, "update accepted");
  for (int i = 0; i < NB; i++) w_vi_update(b, 100 + i, 2.0 + i);
  ASSERT(w_vi_n(a) == NA && w_vi_num_samples(a) == (NA < 2 ? NA : 2), "n exact, min(n, k) samples");
#ifdef INJECT_EST   /* A (and with INJECT_EST == 2 also B) is put into the resting estimation-mode state (n = k + 1, gap slot constructed, filled_data_ set) */
  ASSERT(w_vi_inject_estimation(a, 55) == 0 && w_vi_n(a) == 3 && w_vi_num_samples(a) == 2, "estimation-mode state injected into A");
#if INJECT_EST == 2
  ASSERT(w_vi_inject_estimation(b, 66) == 0 && w_vi_n(b) == 3, "estimation-mode state injected into B");
#endif
#define NB_EFF (INJECT_EST == 2 ? 3 : NB)
#define NA_EFF 3
#else
#define NB_EFF NB
#define NA_EFF NA
#endif
#if SCRIPT == 0
  ASSERT(w_vi_assign(a, b) == 0 && w_vi_n(a) == NB_EFF, "copy assignment");
#elif SCRIPT == 1
  ASSERT(w_vi_move_assign(a, b) == 0 && w_vi_n(a) == NB_EFF, "move assignment");
#elif SCRIPT == 2
  { void* c = w_vi_copy(a); ASSERT(c != 0 && w_vi_n(c) == NA_EFF, "copy construction"); w_vi_delete(c); }
#else
  ASSERT(w_vi_reset(a) == 0 && w_vi_n(a) == 0, "reset");
#endif
  /* one more update, but only while it stays inside the warm-up phase (past it the random slot choice runs a rejection loop whose
   * termination depends on the randomness source: outside this claim) */
#if ((SCRIPT == 0 || SCRIPT == 1) && NB_EFF < 2) || (SCRIPT == 2 && NA_EFF < 2) || SCRIPT == 3
  ASSERT(w_vi_update(a, 7, 1.5) == 0, "the assigned-to / reset sketch accepts further updates");
#endif
  w_vi_delete(a); w_vi_delete(b);
  OBSERVE(ctors); OBSERVE(dtors);
  ASSERT(!negative, "no item destroyed more often than constructed");
  ASSERT(!phantom_dtor, "no destructor runs on storage that holds no constructed item");
  ASSERT(!double_ctor, "no item constructed over a live item");
  { int left = 0; for (int i = 0; i < NLIVE; i++) if (livep[i] != 0) left = 1; ASSERT(!left, "no constructed item left behind"); }
  ASSERT(live == 0 && ctors == dtors, "every constructed item has been destroyed exactly once when the last sketch dies");
  WITNESS();
}
