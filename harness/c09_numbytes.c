/* C09 size accounting kernel: compact_theta_sketch::get_num_entries_bytes() for EVERY entry count 1 .. 2^32-1 (the count is made
 * symbolic by moving the vector's end pointer; the entries themselves are never read): the count field of the compressed image must
 * be exactly wide enough, i.e. the count fits in that many bytes and does not fit in one byte less. */
#include "harness.h"
#include "api.h"
void harness(void) {
  uint64_t e[1] = {5};
  struct S_class_datasketches__compact_theta_sketch_alloc* c = w_cts_make(0, 1, 0, 0x7fffffffffffffffULL, e, 1);
  uint64_t n = ND_RANGE(1, 0xffffffffULL);
  uint8_t b = w_num_entries_bytes(c, n);
  OBSERVE(b);
  ASSERT(b >= 1 && b <= 4, "1..4 bytes");
  ASSERT(b == 4 || (n >> (8 * b)) == 0, "the entry count fits in the advertised number of bytes");
  ASSERT(b == 1 || (n >> (8 * (b - 1))) != 0, "no wider than necessary (documented: whole bytes to hold the bits of the count)");
  w_cts_delete(c);
  WITNESS();
}
