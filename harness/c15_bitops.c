/* C15 unit level: the bit_array_ops kernels on a multi-word array (NW 64-bit words, every byte symbolic) against a word-level model:
 * OP 0: get / set / clear / assign / get_and_set at a symbolic index < 64*NW touch exactly that bit (every other bit unchanged), report it truthfully;
 * OP 1/2/3: union_with / intersect / invert = OR / AND / NOT of every word incl. the last, returned count = population count of the result
 *           = count_num_bits_set of the result. */
#include "hashmodel.h"   /* the bloom TU references the hash model; unused here */
#include "api.h"
#ifndef NW
#define NW 2
#endif
static uint64_t popc(uint64_t x) { uint64_t c = 0; for (int i = 0; i < 64; i++) c += (x >> i) & 1; return c; }
static uint64_t word(const uint8_t* a, int w) { uint64_t v = 0; for (int j = 0; j < 8; j++) v |= (uint64_t)a[8 * w + j] << (8 * j); return v; }
void harness(void) {
  static uint64_t T64[NW], S64[NW]; uint8_t* T = (uint8_t*)T64; uint8_t* S = (uint8_t*)S64;
  uint64_t t0[NW], s0[NW];
  for (int w = 0; w < NW; w++) { t0[w] = ND_U64(); s0[w] = ND_U64(); for (int j = 0; j < 8; j++) { T[8 * w + j] = (uint8_t)(t0[w] >> (8 * j)); S[8 * w + j] = (uint8_t)(s0[w] >> (8 * j)); } }
#if OP == 0
  uint64_t idx = ND_RANGE(0, 64 * NW - 1); int wi = (int)(idx >> 6); uint64_t m = (uint64_t)1 << (idx & 63);
  int was = (t0[wi] & m) != 0;
  ASSERT((int)w_bao_get(T, idx) == was, "get_bit reports the addressed bit");
  ASSERT((int)w_bao_get_and_set(T, idx) == was, "get_and_set_bit returns the previous value");
  for (int w = 0; w < NW; w++) ASSERT(word(T, w) == (w == wi ? (t0[w] | m) : t0[w]), "get_and_set_bit sets exactly the addressed bit");
  w_bao_clear(T, idx);
  for (int w = 0; w < NW; w++) ASSERT(word(T, w) == (w == wi ? (t0[w] & ~m) : t0[w]), "clear_bit clears exactly the addressed bit");
  ASSERT(w_bao_get(T, idx) == 0, "cleared bit reads 0");
  w_bao_set(T, idx);
  for (int w = 0; w < NW; w++) ASSERT(word(T, w) == (w == wi ? (t0[w] | m) : t0[w]), "set_bit sets exactly the addressed bit");
  ASSERT(w_bao_get(T, idx) == 1, "set bit reads 1");
  uint8_t v = (uint8_t)ND_RANGE(0, 1);
  w_bao_assign(T, idx, v);
  for (int w = 0; w < NW; w++) ASSERT(word(T, w) == (w == wi ? (v ? (t0[w] | m) : (t0[w] & ~m)) : t0[w]), "assign_bit writes exactly the addressed bit");
  OBSERVE(word(T, wi));
#else
  uint64_t exp = 0, r;
#if OP == 1
  r = w_bao_union(T, S, 8 * NW);
  for (int w = 0; w < NW; w++) { ASSERT(word(T, w) == (t0[w] | s0[w]), "union_with = bitwise OR of every word"); exp += popc(t0[w] | s0[w]); }
#elif OP == 2
  r = w_bao_intersect(T, S, 8 * NW);
  for (int w = 0; w < NW; w++) { ASSERT(word(T, w) == (t0[w] & s0[w]), "intersect = bitwise AND of every word"); exp += popc(t0[w] & s0[w]); }
#else
  r = w_bao_invert(T, 8 * NW);
  for (int w = 0; w < NW; w++) { ASSERT(word(T, w) == ~t0[w], "invert = bitwise NOT of every word"); exp += popc(~t0[w]); }
#endif
  OBSERVE(r);
  ASSERT(r == exp, "returned count = population count of the result");
  ASSERT(w_bao_count(T, 8 * NW) == exp, "count_num_bits_set = population count");
  for (int w = 0; w < NW; w++) ASSERT(word(S, w) == s0[w], "source operand unchanged");
#endif
  WITNESS();
}
