/* C02: theta set operations on two symbolic operands, compared with the set-algebra definition.
 * Concrete per query: OP (0 union, 1 intersection, 2 a-not-b), NA, NB (entry counts 0..3), AORD, BORD (ordered flags),
 *   AFORM, BFORM (0 compact sketch, 1 update sketch injected into a 4/8-slot table), RORD (ordered result requested).
 * Symbolic: thetas, emptiness of zero-entry operands, all hashes. Union and intersection are also run with the operands in the
 * other order inside the same query (order independence). */
#include "harness.h"
#include "api.h"
#define MAX_THETA 0x7fffffffffffffffULL
#define SEED 9001ULL
struct opnd { uint32_t n; int ordered, is_empty, form; uint64_t theta; uint64_t e[4]; void* sk; };
static int has(const uint64_t* a, uint32_t n, uint64_t v) { int r = 0; for (uint32_t i = 0; i < 4; i++) if (i < n && a[i] == v) r = 1; return r; }
static void make(struct opnd* o, uint32_t n, int ordered, int form, uint16_t sh) {
  uint64_t HI = VERIF_RANDOM_MODE() ? 24 : MAX_THETA;
  o->n = n; o->ordered = ordered; o->form = form;
  o->is_empty = (n == 0) ? ND_BOOL() : 0;
  o->theta = ND_BOOL() ? MAX_THETA : ND_RANGE(1, HI);
  if (o->is_empty) o->theta = MAX_THETA;
  for (uint32_t i = 0; i < n; i++) {
    o->e[i] = ND_RANGE(1, HI); ASSUME(o->e[i] < o->theta);
    for (uint32_t j = 0; j < i; j++) { ASSUME(o->e[j] != o->e[i]); if (ordered) ASSUME(o->e[j] < o->e[i]); }
  }
  if (form == 0) {
    o->sk = w_cts_make((uint8_t)o->is_empty, (uint8_t)(ordered || n <= 1), sh, o->theta, o->e, n);
    /* a compact sketch of <= 1 entry is always ordered (the library's own constructors guarantee it) */
    if (n <= 1) o->ordered = 1;
  } else {
    /* update sketch, table of 2^ULG slots; keys must be findable by the table's own lookup; occupancy is left to the solver */
    struct S_class_datasketches__update_theta_sketch_alloc* u = w_uts_new(ULG, ULG - 1, o->theta, SEED);
    for (uint32_t i = 0; i < n; i++) { int found; uint32_t at = w_uts_find(u, o->e[i], &found); ASSUME(!found); w_uts_set_slot(u, at, o->e[i]); }
    w_uts_set_num(u, n); w_uts_set_empty(u, (uint8_t)o->is_empty);
    o->ordered = (n <= 1);   /* update_theta_sketch::is_ordered() */
    o->sk = u;
  }
}
struct res { int ok, is_empty, ordered; uint64_t theta; uint32_t n; uint64_t e[8]; };
static void read_res(struct res* r, struct S_class_datasketches__compact_theta_sketch_alloc* c) {
  r->ok = c != 0; r->n = 0; r->theta = 0; r->is_empty = 0; r->ordered = 0;
  if (!c) return;
  r->theta = w_cts_theta(c); r->is_empty = w_cts_is_empty(c); r->ordered = w_cts_is_ordered(c);
  r->n = w_cts_num(c);
  for (uint32_t i = 0; i < 8; i++) if (i < r->n) r->e[i] = w_cts_entry(c, i);
  ASSERT(w_cts_seed_hash(c) == w_seed_hash(SEED), "result carries the seed hash");
  w_cts_delete(c);
}
static int same_set(const struct res* x, const struct res* y) {
  if (x->n != y->n || x->theta != y->theta || x->is_empty != y->is_empty) return 0;
  for (uint32_t i = 0; i < 8; i++) if (i < x->n && !has(y->e, y->n > 4 ? 4 : y->n, x->e[i]) && !(y->n > 4 && has(y->e + 4, y->n - 4, x->e[i]))) return 0;
  return 1;
}
static struct S_class_datasketches__compact_theta_sketch_alloc* run(struct opnd* a, struct opnd* b) {
#if OP == 0
#ifdef ULGK   /* unit-level union (private constructor): table of 2^(ULGK+1) slots, nominal size k = 2^ULGK, so that get_result has to trim */
  struct S_class_datasketches__theta_union_alloc* u = w_tu_new_unit(ULGK + 1, ULGK, MAX_THETA, SEED);
#else         /* public builder at the minimum lg_k */
  struct S_class_datasketches__theta_union_alloc* u = w_tu_new(5, SEED);
#endif
  int r1 = a->form ? w_tu_update_u(u, a->sk) : w_tu_update_c(u, a->sk);
  int r2 = b->form ? w_tu_update_u(u, b->sk) : w_tu_update_c(u, b->sk);
  ASSERT(r1 == 0 && r2 == 0, "union update accepts operands with the right seed");
  struct S_class_datasketches__compact_theta_sketch_alloc* c = w_tu_result(u, RORD);
  w_tu_delete(u); return c;
#elif OP == 1
  struct S_class_datasketches__theta_intersection_alloc* t = w_ti_new(SEED);
  ASSERT(!w_ti_has_result(t), "no result before the first update");
  int r1 = a->form ? w_ti_update_u(t, a->sk) : w_ti_update_c(t, a->sk);
  int r2 = b->form ? w_ti_update_u(t, b->sk) : w_ti_update_c(t, b->sk);
  ASSERT(r1 == 0 && r2 == 0, "intersection update accepts valid operands");
  ASSERT(w_ti_has_result(t), "result defined after an update");
  struct S_class_datasketches__compact_theta_sketch_alloc* c = w_ti_result(t, RORD);
  w_ti_delete(t); return c;
#else
  if (a->form) return w_anb_uc(SEED, a->sk, b->sk, RORD);
  if (b->form) return w_anb_cu(SEED, a->sk, b->sk, RORD);
  return w_anb_cc(SEED, a->sk, b->sk, RORD);
#endif
}
void harness(void) {
  uint16_t sh = w_seed_hash(SEED);
  struct opnd A, B; make(&A, NA, AORD, AFORM, sh); make(&B, NB, BORD, BFORM, sh);
  struct res R; read_res(&R, run(&A, &B));
  ASSERT(R.ok, "operation returns a result (no exception)");
  /* ---- oracle: the set expression over the hash samples ---- */
  uint64_t theta; int empty; uint64_t exp[8]; uint32_t ne = 0;
#if OP == 0
  empty = A.is_empty && B.is_empty;
  theta = MAX_THETA; if (!A.is_empty && A.theta < theta) theta = A.theta; if (!B.is_empty && B.theta < theta) theta = B.theta;
  for (uint32_t i = 0; i < NA; i++) if (A.e[i] < theta) exp[ne++] = A.e[i];
  for (uint32_t i = 0; i < NB; i++) if (B.e[i] < theta && !has(A.e, NA, B.e[i])) exp[ne++] = B.e[i];
#ifdef ULGK
  { /* more than k survivors: theta = (k+1)-th smallest, exactly the k smallest are kept */
    const uint32_t k = 1u << ULGK;
    if (ne > k) {
      uint64_t kept[8]; uint32_t nk = 0; uint64_t nt = theta;
      for (uint32_t i = 0; i < 8; i++) if (i < ne) { uint32_t rank = 0; for (uint32_t j = 0; j < 8; j++) if (j < ne && exp[j] < exp[i]) rank++; if (rank < k) kept[nk++] = exp[i]; if (rank == k) nt = exp[i]; }
      for (uint32_t i = 0; i < 8; i++) if (i < nk) exp[i] = kept[i];
      ne = nk; theta = nt;
    }
  }
#endif
#elif OP == 1
  theta = (A.is_empty || B.is_empty) ? MAX_THETA : (A.theta < B.theta ? A.theta : B.theta);
  for (uint32_t i = 0; i < NA; i++) if (A.e[i] < theta && has(B.e, NB, A.e[i])) exp[ne++] = A.e[i];
  empty = A.is_empty || B.is_empty || (ne == 0 && theta == MAX_THETA && (NA > 0 && NB > 0));
#else
  if (A.is_empty || (NA > 0 && B.is_empty)) { theta = A.theta; for (uint32_t i = 0; i < NA; i++) exp[ne++] = A.e[i]; empty = A.is_empty; }
  else {
    theta = A.theta < B.theta ? A.theta : B.theta;
    for (uint32_t i = 0; i < NA; i++) if (A.e[i] < theta && !has(B.e, NB, A.e[i])) exp[ne++] = A.e[i];
    empty = (ne == 0 && theta == MAX_THETA);
  }
#endif
  OBSERVE(R.theta); OBSERVE(R.n); OBSERVE(R.is_empty);
  ASSERT(R.theta == theta, "result theta == minimum input theta (documented empty-set semantics)");
  ASSERT(R.is_empty == empty, "result emptiness follows the documented semantics");
  ASSERT(R.n == ne, "result has exactly as many entries as the set expression below theta");
  for (uint32_t i = 0; i < 8; i++) if (i < ne) ASSERT(has(R.e, R.n > 4 ? 4 : R.n, exp[i]) || (R.n > 4 && has(R.e + 4, R.n - 4, exp[i])), "no missing hash");
  for (uint32_t i = 0; i < 8; i++) if (i < R.n) { ASSERT(R.e[i] != 0 && R.e[i] < R.theta, "every result hash is non-zero and below theta"); OBSERVE(R.e[i]); }
  if (R.ordered) for (uint32_t i = 1; i < 8; i++) if (i < R.n) ASSERT(R.e[i - 1] < R.e[i], "a result flagged ordered is strictly ascending");
  if (RORD) ASSERT(R.ordered, "ordered result when requested");
#if OP != 2 && defined(SWAP)
  struct res S; read_res(&S, run(&B, &A));
  ASSERT(S.ok && same_set(&R, &S), "result independent of the order of presentation");
#endif
  WITNESS();
}
