/* C20 (counting / iteration clauses): density_sketch<double> whose level contents are injected (LAYOUT: a concrete list of levels, one
 * point each, e.g. levels {0,2} leaves level 1 empty), point coordinates symbolic. The public iterator must show exactly num_retained
 * points, each with weight 2^level, weights summing to n; a point of the wrong dimension is refused by update(). */
#include "harness.h"
#include "api.h"
#include "randhook.h"
#define STR_(x) x
static const unsigned layout[] = { LAYOUT_VALUES };
#define NP (sizeof(layout) / sizeof(layout[0]))
void harness(void) {
  void* s = w_ds_new(4, 2);
  ASSERT(s && w_ds_is_empty(s) && w_ds_n(s) == 0 && w_ds_num_retained(s) == 0, "fresh sketch is empty");
  double xs[NP + 1]; uint64_t n = 0;
  for (unsigned i = 0; i < NP; i++) { xs[i] = (double)(int32_t)ND_U32(); w_ds_inject(s, layout[i], xs[i]); n += (uint64_t)1 << layout[i]; }
  ASSERT(w_ds_n(s) == n && w_ds_num_retained(s) == NP, "n and retained count as injected");
  double x[8]; uint64_t w[8]; int32_t cnt = w_ds_items(s, x, w, 8);
  ASSERT(cnt == (int32_t)NP, "retained count equals the number of points visible through iteration");
  uint64_t sum = 0;
  for (unsigned i = 0; i < NP; i++) {      /* iteration order: by level, insertion order inside a level; LAYOUT is given in ascending level order */
    ASSERT(w[i] == ((uint64_t)1 << layout[i]), "each visible point carries weight 2^level");
    ASSERT(x[i] == xs[i], "visible points are the retained points");
    sum += w[i]; OBSERVE(w[i]);
  }
  ASSERT(sum == n, "weights of the visible points sum to n");
  ASSERT(w_ds_update(s, 1.0, 3) == 1, "a point of the wrong dimension is refused");
  w_ds_delete(s);
  WITNESS();
}
