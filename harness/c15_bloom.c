/* C15: bloom_filter through its public API against a bit-vector model.
 * Two owned filters A, B (64 bits, NH hash functions, same seed); the XXHash64 function is a harness model (arbitrary function).
 * Script: A.update(x1) [; A.update(x2)] ; B gets NBU items ; OP: 0 none, 1 A.union_with(B), 2 A.intersect(B), 3 A.invert()
 * Then: no false negatives in A, in a copy and in the serialized-and-restored filter; bit array == model; bits_used == popcount(model);
 * query_and_update returns prior presence. GETBITS (0/1): whether get_bits_used() is called on A before OP (clears the dirty flag). */
#include "hashmodel.h"
#include "api.h"
#define CAPBITS 64
static uint64_t model_insert(uint64_t bits, uint64_t item, uint64_t seed) {
  uint64_t h0 = verif_hash64((uint8_t*)&item, 8, seed); uint64_t h1 = verif_hash64((uint8_t*)&item, 8, h0);
  for (uint64_t i = 1; i <= NH; i++) bits |= (uint64_t)1 << (((h0 + i * h1) >> 1) % CAPBITS);
  return bits;
}
static int model_has(uint64_t bits, uint64_t item, uint64_t seed) {
  uint64_t h0 = verif_hash64((uint8_t*)&item, 8, seed); uint64_t h1 = verif_hash64((uint8_t*)&item, 8, h0);
  int r = 1; for (uint64_t i = 1; i <= NH; i++) if (!((bits >> (((h0 + i * h1) >> 1) % CAPBITS)) & 1)) r = 0; return r;
}
static uint64_t popc(uint64_t x) { uint64_t c = 0; for (int i = 0; i < 64; i++) c += (x >> i) & 1; return c; }
void harness(void) {
  uint64_t seed = ND_U64();
  void* A = w_bf_new(CAPBITS, NH, seed); void* B = w_bf_new(CAPBITS, NH, seed);
  ASSERT(A && B && w_bf_capacity(A) == CAPBITS && w_bf_is_empty(A), "fresh filter: requested capacity, empty");
  uint64_t x[3], y[2]; uint64_t ma = 0, mb = 0;
  for (int i = 0; i < NAU; i++) { x[i] = ND_U64(); ASSERT(w_bf_update(A, x[i]) == 0, "update accepted"); ma = model_insert(ma, x[i], seed); }
  for (int i = 0; i < NBU; i++) { y[i] = ND_U64(); w_bf_update(B, y[i]); mb = model_insert(mb, y[i], seed); }
#if GETBITS
  ASSERT(w_bf_bits_used(A) == popc(ma), "bits used == population count of the model");
#endif
#if OP == 1
  ASSERT(w_bf_union(A, B) == 0, "union of compatible filters accepted"); ma |= mb;
#elif OP == 2
  ASSERT(w_bf_intersect(A, B) == 0, "intersection of compatible filters accepted"); ma &= mb;
#elif OP == 3
  ASSERT(w_bf_invert(A) == 0, "invert accepted"); ma = ~ma;
#endif
  OBSERVE(ma);
  ASSERT(w_bf_word(A, 0) == ma, "bit array == bitwise model (OR / AND / NOT of the operands)");
  ASSERT((int)w_bf_is_empty(A) == (ma == 0), "is_empty iff no bit is set");
  /* no false negatives, in every representation */
#ifdef QAU_DIRTY   /* query_and_update on a filter whose bit count is still pending (filled by update() only, no get_bits_used() in between) */
  { uint64_t q = ND_U64(); int before = model_has(ma, q, seed);
    ASSERT(w_bf_query_and_update(A, q) == before, "query_and_update on a filter with a pending count returns prior presence");
    ma = model_insert(ma, q, seed);
    ASSERT(w_bf_word(A, 0) == ma, "bit array == model after query_and_update");
    ASSERT((int)w_bf_is_empty(A) == (ma == 0), "is_empty iff no bit is set, after query_and_update on a filter with a pending count");
    for (int i = 0; i < NAU; i++) ASSERT(w_bf_query(A, x[i]) == 1, "no false negative after query_and_update on a filter with a pending count");
    ASSERT(w_bf_bits_used(A) == popc(ma), "exact count of set bits after query_and_update on a filter with a pending count");
    w_bf_delete(A); w_bf_delete(B);
    WITNESS(); return; }
#endif
#if defined(WITH_WRAP) && WITH_WRAP == 2   /* filter living in caller memory (initialize_by_size), updated through that writable view, then the SAME memory re-wrapped */
  { static uint64_t mem64[8]; uint8_t* mem = (uint8_t*)mem64;
    void* Wr = w_bf_init_mem(mem, 64, CAPBITS, NH, seed);
    ASSERT(Wr != 0, "initialize_by_size in caller memory accepted");
    uint64_t mw = 0;
    for (int i = 0; i < NAU; i++) { ASSERT(w_bf_update(Wr, x[i]) == 0, "update through the writable view accepted"); mw = model_insert(mw, x[i], seed); }
    void* Ro = w_bf_wrap(mem, 64);
    ASSERT(Ro != 0, "read-only wrap of the same memory accepted");
    for (int i = 0; i < NAU; i++) ASSERT(w_bf_query(Ro, x[i]) == 1, "no false negative in a fresh read-only wrap of memory updated through a writable view");
    ASSERT((int)w_bf_is_empty(Ro) == (mw == 0), "re-wrapped view: is_empty iff no bit is set");
    w_bf_delete(Ro); w_bf_delete(Wr); w_bf_delete(A); w_bf_delete(B);
    WITNESS(); return; }
#endif
#if defined(WITH_WRAP) && WITH_WRAP == 3   /* every mutating operation through a read-only wrap of the serialized image is refused and the image stays as it was */
  { static uint8_t image[64], saved[64]; int64_t isz = w_bf_serialize(A, image, 64);
    ASSERT(isz > 0, "serialize accepted");
    for (int i = 0; i < 64; i++) saved[i] = image[i];
    void* Wv = w_bf_wrap(image, (uint64_t)isz);
    ASSERT(Wv != 0, "wrap of the image accepted");
    uint64_t q = ND_U64();
    ASSERT(w_bf_update(Wv, q) == 1, "update through a read-only view refused");
    ASSERT(w_bf_query_and_update(Wv, q) == -1, "query_and_update through a read-only view refused");
    ASSERT(w_bf_reset(Wv) == 1, "reset through a read-only view refused");
    ASSERT(w_bf_invert(Wv) == 1, "invert through a read-only view refused");
    ASSERT(w_bf_union(Wv, A) == 1, "union_with into a read-only view refused");
    ASSERT(w_bf_intersect(Wv, B) == 1, "intersect into a read-only view refused");
    for (int i = 0; i < 64; i++) ASSERT(image[i] == saved[i], "caller memory behind a read-only view is never written");
    w_bf_delete(Wv); w_bf_delete(A); w_bf_delete(B);
    WITNESS(); return; }
#endif
#ifdef WITH_WRAP   /* read-only wrap of the serialized image of A (A was filled by update() only: its bit count is still pending) */
  { static uint8_t image[64]; int64_t isz = w_bf_serialize(A, image, 64);
    ASSERT(isz > 0, "serialize accepted");
    void* Wv = w_bf_wrap(image, (uint64_t)isz);
    ASSERT(Wv != 0, "wrap of the image accepted");
    ASSERT((int)w_bf_is_empty(Wv) == (ma == 0), "wrapped view: is_empty iff no bit is set");
    for (int i = 0; i < NAU; i++) ASSERT(w_bf_query(Wv, x[i]) == 1, "no false negative in a read-only wrap of the serialized image");
    ASSERT(w_bf_bits_used(Wv) == popc(ma), "wrapped view: exact count of set bits");
    w_bf_delete(Wv); w_bf_delete(A); w_bf_delete(B);
    WITNESS(); return; }
#endif
#ifdef LIGHT   /* set-operation queries: only the filter itself (copy / restore / query model are checked by the OP==0 queries) */
  for (int i = 0; i < NAU; i++) if (OP == 0 || OP == 1) ASSERT(w_bf_query(A, x[i]) == 1, "no false negative: inserted item present");
  for (int i = 0; i < NBU; i++) if (OP == 1) ASSERT(w_bf_query(A, y[i]) == 1, "no false negative for the items of the united filter");
  ASSERT(w_bf_bits_used(A) == popc(ma), "exact count of set bits");
  w_bf_delete(A); w_bf_delete(B);
  WITNESS();
  return;
#endif
  void* C = w_bf_copy(A); void* R = w_bf_roundtrip(A);
  ASSERT(R != 0, "serialize + deserialize accepted");
#if OP == 0 || OP == 1
  for (int i = 0; i < NAU; i++) {
    ASSERT(w_bf_query(A, x[i]) == 1, "no false negative: inserted item present");
    ASSERT(w_bf_query(C, x[i]) == 1, "no false negative in a copy");
    ASSERT(w_bf_query(R, x[i]) == 1, "no false negative in the serialized-and-restored filter");
  }
#endif
#if OP == 1
  for (int i = 0; i < NBU; i++) ASSERT(w_bf_query(A, y[i]) == 1 && w_bf_query(R, y[i]) == 1, "no false negative for the items of the united filter");
#endif
  uint64_t q = ND_U64();
  ASSERT(w_bf_query(A, q) == model_has(ma, q, seed), "query == all k model bits set");
  ASSERT(w_bf_bits_used(A) == popc(ma) && w_bf_bits_used(R) == popc(ma) && w_bf_bits_used(C) == popc(ma), "exact count of set bits in every representation");
  int before = model_has(ma, q, seed);
  ASSERT(w_bf_query_and_update(A, q) == before, "query_and_update returns whether the item was present before the call");
  ASSERT(w_bf_query(A, q) == 1, "present after query_and_update");
  w_bf_delete(A); w_bf_delete(B); w_bf_delete(C); w_bf_delete(R);
  WITNESS();
}
