#!/usr/bin/env python3
"""replay.py <replays/ID-query.replay> : rebuild the harness natively against the g++ (ASan/UBSan) build of the real wrappers from /repo's
current tree and replay the recorded solver inputs.  Exit 1 if the violation reproduces."""
import sys, json, re, os
sys.path.insert(0, os.path.dirname(os.path.abspath(__file__)))
import run
path = sys.argv[1]
meta = [l for l in open(path) if l.startswith('# property=')][-1]
m = re.match(r'# property=(\S+) query=(\S+) harness=(\S+) tu=(\S+) defs=(\{.*?\}) tu_defs=(\{.*\})', meta.strip())
prop, qname, harness, tu = m.group(1), m.group(2), m.group(3), m.group(4)
q = run.Q(qname, tu, harness, defs=json.loads(m.group(5)), tu_defs=json.loads(m.group(6)))
run.ensure_tool()
tui = run.gen_tu(tu, q.tu_defs)
qd = os.path.join(run.BUILD, 'replay', re.sub(r'[^A-Za-z0-9_.-]', '_', qname)); os.makedirs(qd, exist_ok=True)
exe = run.native_build(q, tui, qd, real=True, sanitize=True)
rc, out, _, _ = run.sh([exe, '--replay', path], timeout=120, env=dict(os.environ, ASAN_OPTIONS='detect_leaks=0'))
print(out[-4000:]); print('replay exit code', rc)
sys.exit(1 if (rc == 1 or 'AddressSanitizer' in out or 'runtime error' in out) else 0)
