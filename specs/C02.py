META = {
 'manifest': {'text': 'Bounded symbolic model checking of the real theta_union / theta_intersection / theta_a_not_b on two operand sketches with up to 3 symbolic hashes each (compact ordered/unordered and update-sketch forms, empty / zero-retained-non-empty / exact / estimation chosen by the solver): result theta, emptiness and entry set equal the set-algebra definition; union and intersection give the same result with the operands swapped; unit-level trimming of an over-full union table to the (k+1)-th smallest hash.',
              'note': 'std::vector<uint64_t>::_M_realloc_insert replaced by a fixed-capacity model (library code, not repo code); resize()/rebuild()/nth_element of the 64-slot union table are cut with an assert-unreachable that the solver discharges; Jaccard / bounds_on_ratios (floating point) outside'},
 'functions_encoded': ['theta_union_base::update/get_result', 'theta_intersection_base::update/get_result/has_result', 'theta_set_difference_base::compute', 'compact_theta_sketch_alloc 5-arg ctor + iterators', 'std::set_difference / std::sort / std::nth_element instantiations', 'theta_update_sketch_base::find/insert', 'lg_size_from_count', 'compute_seed_hash (MurmurHash3 of the seed, concrete)'],
 'bounds': '<= 3 entries per operand, 2 operands, union lg_k = 5 (public minimum) and a unit-level union with k = 2,4 for trimming; all hashes/thetas symbolic 63-bit',
 'stubs': ['std::vector<uint64_t>::_M_realloc_insert -> fixed capacity model (VERIF_VEC_CAP)'],
 'assumes': ['operands are valid sketches: hashes distinct, non-zero, below theta; ascending iff flagged ordered; empty => no entries and theta = max', 'same seed (seed mismatch is checked separately)'],
 'outside': ['Jaccard similarity and bounds_on_ratios (floating point)', 'wrapped / deserialized operand forms (their iterators are covered by C09/C11 harnesses)', 'more than 3 entries per operand, more than 2 operands in one query'],
}
import os
# queries measured to finish within the quick budget (<= 200 s, <= 8 GB) on the pinned tree; all others are thorough-only
QUICK_OK = set('''op2_a0o0_b1o0_r1 op2_a0o0_b2o0_r0 op2_a0o0_b3o0_r1 op2_a2o0_b1o0_r1 op2_a1o0_b2o0_r1 op2_a0o0_b2u0_r0 op0_a0o0_b2o0_r0 op0_a2o0_b0o0_r0
op0_a0o0_b0o0_r0 op0_a0o0_b2u0_r0 op0_a2u0_b0o0_r0 op2_a2o0_b2o0_r0 op1_a0o0_b0o0_r0 op2_a1o0_b2u0_r1 op0_a1o0_b1o0_r0 op2_a1o0_b0o0_r1 op2_a2o0_b0o0_r0
op2_a2u0_b0o0_r0 op2_a3o0_b0o0_r1 op2_a0o0_b0o0_r0 op2_a1o0_b1o0_r0
op1_a1o0_b1o0_r0 op1_a1o0_b3o0_r0 op1_a1o0_b3u0_r0 op1_a2o0_b0o0_r0 op1_a2u0_b0o0_r0 op1_a2o0_b2o0_r0 op1_a2o0_b2u0_r0 op1_a2u0_b2o0_r0 op1_a2u0_b2u0_r0
op1_a3o0_b1o0_r0 op1_a3u0_b1o0_r0 op1_a0o0_b2o0_r0 op1_a0o0_b2u0_r0
op2_a2u0_b2o0_r0'''.split())
def queries(tier):
    qs = _queries(tier)
    THOROUGH_OK = QUICK_OK | set('op1_a3o0_b3o0_r0 op2_a2u0_b2u0_r0'.split())   # measured; every other shape (ordered results of odd sums, update-sketch operand forms, 3+3 unions, the public lg_k 5 union) had no verdict in 600 s
    if not os.environ.get('C02_ALL'): qs = [q for q in qs if q.name in (QUICK_OK if tier == 'quick' else THOROUGH_OK)]
    for q in qs:
        if q.name.startswith('op2_a2u0_b2'): q.timeout = max(q.timeout, 900)   # hash-based a-not-b scan of an unordered A: ~190 s measured, heavy-tailed
    return qs
def _queries(tier):
    qs = []
    cuts = {'VERIF_VEC_CAP': 8, 'VERIF_NEW_CAPN': 64, 'VERIF_NEW_MAX': None}
    for op in (0, 1, 2):
        for na in range(0, 4):
            for nb in range(0, 4):
                for aord in (0, 1):
                    for bord in (0, 1):
                        if (na <= 1 and aord == 0) or (nb <= 1 and bord == 0): continue   # <=1 entry is always ordered
                        forms = [(0, 0)]
                        if tier == 'thorough' and na >= 1 and nb >= 1: forms += [(1, 0), (0, 1)]
                        for (af, bf) in forms:
                            small = (na + nb <= 4)
                            rord = (na + nb) % 2
                            defs = {'OP': op, 'NA': na, 'NB': nb, 'AORD': aord, 'BORD': bord, 'AFORM': af, 'BFORM': bf, 'RORD': rord, 'ULG': 3}
                            if op != 2 and (tier == 'thorough' or na + nb <= 3): defs['SWAP'] = None
                            cd = dict(cuts)
                            if op == 1:   # intersection tables are sized from the entry count: resize()/rebuild()/vector growth are unreachable in fact: cut, the solver proves it
                                cd.update({'VERIF_CUT_THETA_RESIZE': None, 'VERIF_CUT_THETA_REBUILD': None, 'VERIF_CUT_VECTOR_REALLOC': None, 'VERIF_NEW_CAPN': 8})
                            if op == 0:
                                # union: unit-level table of 8 slots, k = 4 (k = 2 / 4 slots when there are <= 3 entries): <= 6 entries never reach resize()/rebuild(): cut and let the solver prove it
                                defs['ULGK'] = 2 if na + nb > 3 else 1
                                cd.update({'VERIF_CUT_VECTOR_REALLOC': None, 'VERIF_CUT_THETA_RESIZE': None, 'VERIF_NEW_CAPN': 8})
                                if na + nb < (2 << defs['ULGK']): cd['VERIF_CUT_THETA_REBUILD'] = None
                                if na + nb <= (1 << defs['ULGK']): cd.update({'VERIF_CUT_INTROSELECT': None, 'VERIF_CUT_SHRINK_TO_FIT': None})
                            qs.append(Q(f'op{op}_a{na}{"o" if aord else "u"}{af}_b{nb}{"o" if bord else "u"}{bf}_r{rord}', 'theta_setops', 'c02_setop.c', defs=defs,
                                        unwind=max(na + nb, 2) + 2, unwindset={'^(verif_new_.*|harness|make|read_res|has|same_set|verif_mem(set|cpy).*)$': 20, 'update|find|realloc_insert': 10, 'introsort_loop': 2},
                                        timeout=(300 if tier == 'quick' else 1500), native_vectors=400, c_defs=cd, mem_gb=(8 if tier == 'quick' else 28)))
    # public-API union at the minimum lg_k = 5 (64-slot table): one entry per operand
    qs.append(Q('op0_public_lgk5_a1_b1', 'theta_setops', 'c02_setop.c', defs={'OP': 0, 'NA': 1, 'NB': 1, 'AORD': 1, 'BORD': 1, 'AFORM': 0, 'BFORM': 0, 'RORD': 1, 'ULG': 3},
                unwind=10, unwindset={'^(verif_new_.*|harness|make|read_res|has|same_set|verif_mem(set|cpy).*)$': 72, 'update|find|get_result|copy_if|begin': 68, 'introsort_loop': 2},
                timeout=(240 if tier == 'quick' else 1500), native_vectors=400,
                c_defs={'VERIF_VEC_CAP': 8, 'VERIF_NEW_CAPN': 64, 'VERIF_NEW_MAX': None, 'VERIF_CUT_VECTOR_REALLOC': None, 'VERIF_CUT_THETA_RESIZE': None, 'VERIF_CUT_THETA_REBUILD': None, 'VERIF_CUT_INTROSELECT': None, 'VERIF_CUT_SHRINK_TO_FIT': None}))
    return qs
