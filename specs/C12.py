META = {
 'manifest': {'text': 'Bounded symbolic model checking of the real frequent_items_sketch<uint64_t> with an 8-slot map (purge above 6 active items): concrete distinct items with symbolic weights, updates and one merge that overflows the receiving map (purge during the replay of the other sketch): for every item lower <= true weight <= upper, estimate in between, upper - lower = maximum error, total weight exact, NO_FALSE_NEGATIVES / NO_FALSE_POSITIVES result-set guarantees, descending order. Unit level: one purge step (subtract_and_keep_positive_only) of the real 8-slot reverse-purge map with symbolic values and a symbolic amount, from key layouts whose clusters wrap around the table end: survivors stay findable with value - amount, the rest are removed, counts agree. Merge that purges during the replay (concrete stream, symbolic accumulated offsets injected on both sides): the maximum error accounts for both offsets plus what the purges of the merge subtracted, and no item loses weight unaccounted. Merge of a sketch whose purge removed every counter (state injected: symbolic total weight and offset on an empty map) into a sketch with a symbolic weight and offset: total weight and maximum error add exactly.',
              'note': 'item values and all but one weight concrete (a symbolic weight makes the zero-weight early return a symbolic branch; each one doubles the state symex keeps), one weight symbolic 1..1000; merges that purge during the replay are decided for a concrete stream with symbolic injected offsets only; result-set queries: no verdict; the epsilon clause, string items and serialization outside'},
 'functions_encoded': ['frequent_items_sketch::update/merge/get_estimate/get_lower_bound/get_upper_bound/get_maximum_error/get_total_weight/get_frequent_items', 'reverse_purge_hash_map::adjust_or_insert/resize/purge/subtract_and_keep_positive_only/hash_delete/get/internal_adjust_or_insert', 'std::nth_element instantiation (median of the purge sample)', 'std::sort of the result rows', 'reverse_purge_hash_map::subtract_and_keep_positive_only / hash_delete / get / adjust_or_insert called directly (unit level)', 'frequent_items_sketch::merge with purge() inside the replayed update() (offsets injected)'],
 'bounds': 'lg_max_map_size = lg_start = 3 (8 slots); <= 7 distinct concrete items, ONE symbolic weight 1..1000 (others concrete); one purge (7th item) or one merge without purge in the quick tier; purge step: 3..6 concrete keys in 6 (quick) / 9 (thorough) home-slot layouts, values and amount symbolic 0..10^6',
 'stubs': [], 'assumes': [], 'outside': ['epsilon bound (needs the purge-sample statistics)', 'symbolic item values (probe sequences)', 'larger maps, map growth, string items'],
}
def queries(tier):
    qs = []
    # (NA, NB, overlap, merge, NSYM): concrete distinct items; only the last NSYM weights are symbolic
    for (na, nb, ov, mg, ns) in [(3, 0, 0, 0, 1), (7, 0, 0, 0, 1), (3, 3, 0, 1, 1), (4, 3, 1, 1, 1)] + ([] if tier == 'thorough' else []):   # a merge that purges during the replay: no verdict in 3000 s (fi_a6_b1_ov0_m1_s1)
        qs.append(Q(f'fi_a{na}_b{nb}_ov{ov}_m{mg}_s{ns}', 'fi', 'c12_fi.c', defs=dict({'NA': na, 'NB': nb, 'OV': ov, 'MERGE': mg, 'NSYM': ns}, **({'SYMPOS': 0} if mg else {})), unwind=12,
                    unwindset={'^(harness|weight|verif_mem.*|verif_new.*)$': 40, 'introselect|heap_select|insertion_sort|adjust_heap|unguarded': 9}, timeout=(500 if tier == 'quick' else 3000), native_vectors=200,
                    c_defs=dict({'VERIF_NEW_CAPN': 16, 'VERIF_VEC_CAP': 10}, **({'VERIF_CUT_FI_PURGE': None} if na + nb - ov <= 6 else {})), mem_gb=(20 if tier == 'quick' else 28)))
    # unit-level purge step on the 8-slot map: concrete keys with chosen home slots (clusters that wrap around the table end, clusters in the middle,
    # a full table), symbolic values and purge amount
    def fmix64(k):
        M = (1 << 64) - 1
        k ^= k >> 33; k = (k * 0xff51afd7ed558ccd) & M; k ^= k >> 33; k = (k * 0xc4ceb9fe1a85ec53) & M; k ^= k >> 33; return k
    def keys_for(homes):
        out, k = [], 1
        for h in homes:
            while (fmix64(k) & 7) != h or k in out: k += 1
            out.append(k); k = 1
        return out
    patterns = [(6, 7, 7), (7, 7, 7, 0), (6, 6, 7, 7, 6), (5, 7, 6, 7, 0, 7), (1, 1, 2, 1), (3, 3, 7, 7, 0, 0)] + ([(7, 6, 5, 7, 6, 5), (0, 0, 0, 7, 7, 7), (2, 3, 4, 2, 3, 4)] if tier == 'thorough' else [])
    for hs in patterns:
        ks = keys_for(hs)
        qs.append(Q('fi_purge_step_h' + ''.join(map(str, hs)), 'fi', 'c12_purge.c', defs={'KEYS': ','.join(f'{k}ull' for k in ks), 'HOMES': ','.join(f'{h}u' for h in hs)}, unwind=10,
                    unwindset={'^(harness|verif_mem.*|verif_new.*)$': 40}, timeout=(400 if tier == 'quick' else 1500), native_vectors=300, c_defs={'VERIF_NEW_CAPN': 16, 'VERIF_VEC_CAP': 10}, mem_gb=12))
    # merges that PURGE during the replay of the other sketch: the stream is concrete (symex constant-folds the whole history), only the
    # queried item is symbolic: the bracket must hold for every item of the domain
    for (na, nb, ov) in []:   # attempted: (5,3,0), (6,2,1), (6,3,0): symex of the purge's nth_element does not fold even on this concrete data; no verdict in 400 s
        qs.append(Q(f'fi_mergepurge_a{na}_b{nb}_ov{ov}_symquery', 'fi', 'c12_fi.c', defs={'NA': na, 'NB': nb, 'OV': ov, 'MERGE': 1, 'NSYM': 0, 'SYMQUERY': None}, unwind=14,
                    unwindset={'^(harness|weight|verif_mem.*|verif_new.*)$': 40}, timeout=(400 if tier == 'quick' else 1500), native_vectors=200,
                    c_defs={'VERIF_NEW_CAPN': 16, 'VERIF_VEC_CAP': 10}, mem_gb=16))
    for (na, ns) in []:   # result-set queries (sort of a symbolic-length vector of rows): no verdict in 400 s
        qs.append(Q(f'fi_resultsets_a{na}_s{ns}', 'fi', 'c12_fi.c', defs={'NA': na, 'NB': 0, 'OV': 0, 'MERGE': 0, 'NSYM': ns, 'RESULTSETS': None}, unwind=12,
                    unwindset={'^(harness|weight|verif_mem.*|verif_new.*)$': 40, 'introselect|heap_select|insertion_sort|adjust_heap|unguarded': 9}, timeout=(400 if tier == 'quick' else 1800), native_vectors=200,
                    c_defs={'VERIF_NEW_CAPN': 16, 'VERIF_VEC_CAP': 10}, mem_gb=(20 if tier == 'quick' else 28)))
    # merge that PURGES during the replay, concrete stream, SYMBOLIC accumulated offsets on both sides (state injection)
    for (na, nb, ov) in [(6, 1, 0), (5, 3, 1)]:
        qs.append(Q(f'fi_mergeoffset_a{na}_b{nb}_ov{ov}', 'fi', 'c12_mergeoffset.c', defs={'NA': na, 'NB': nb, 'OV': ov}, unwind=14,
                    unwindset={'^(harness|verif_mem.*|verif_new.*)$': 40, 'introselect|heap_select|insertion_sort|adjust_heap|unguarded': 9}, timeout=(500 if tier == 'quick' else 1500), native_vectors=200,
                    c_defs={'VERIF_NEW_CAPN': 16, 'VERIF_VEC_CAP': 10}, mem_gb=16))
    # a sketch whose purge removed every counter: merged into another sketch (symbolic weight + injected offset there) / through a bytes round trip
    for mode in (0,):   # mode 1 (bytes round trip of that state) found the loss on the unrepaired tree (solver counterexample, replayed); on the repaired tree the
                        # non-empty image path (array writer / reader) does not finish symex (300 s): not in the tiers, the repaired round trip is checked natively in the fix commit
        qs.append(Q(f'fi_allpurged_{"merge" if mode == 0 else "roundtrip"}', 'fi', 'c12_mergepurged.c', defs={'MODE': mode}, unwind=14,
                    unwindset={'^(harness|verif_mem.*|verif_new.*)$': 80, 'introselect|heap_select|insertion_sort|adjust_heap|unguarded': 9}, timeout=(500 if tier == 'quick' else 1500), native_vectors=200,
                    c_defs=dict({'VERIF_NEW_CAPN': (16 if mode == 0 else 40), 'VERIF_VEC_CAP': 10}, **({'VERIF_NEW_MAX': None} if mode == 1 else {})), mem_gb=16))
    return qs
