META = {
 'manifest': {'text': 'Bounded symbolic model checking of the real bloom_filter (owned memory, 64-bit capacity, 1-2 hash functions) against a bit-vector model with the hash function as an arbitrary function: after up to 2+2 symbolic updates and one of union / intersect / invert, the bit array equals the bitwise model, the set-bit count is exact, no inserted item is reported absent by the filter, a copy or the serialized-and-restored filter, query equals the model, query_and_update returns prior presence, also on a filter whose bit count is still pending (update() then query_and_update(): bit array, emptiness, no false negative, exact count). Every mutating operation through a read-only wrap of the serialized image is refused and the image is unchanged. Unit level: the bit_array_ops kernels (get / set / clear / assign / get_and_set at a symbolic bit index; union_with / intersect / invert / count_num_bits_set) on 2- and 3-word arrays (thorough: 5) with every byte symbolic equal the word-level model, touch exactly the addressed bit and return the exact population count.',
              'note': 'XXHash64 replaced by a functionally consistent nondeterministic model; capacity 64 bits only; wrap / writable_wrap of caller memory, string items and the false-positive rate outside the quick claim'},
 'functions_encoded': ['bloom_filter_alloc::update/query/query_and_update/union_with/intersect/invert/get_bits_used/is_empty/serialize/deserialize/copy ctor', 'bit_array_ops::get_bit/set_bit/get_and_set_bit/count_num_bits_set/union_with/intersect/invert', 'bloom_filter_builder::create_by_size', 'bit_array_ops kernels alone on multi-word arrays'],
 'bounds': 'capacity 64 bits, num_hashes 1..2, <= 2 symbolic items per filter, one set operation',
 'stubs': ['XXHash64::hash -> harness model'], 'assumes': [], 'outside': ['false-positive rate', 'filter-level capacities above 64 bits / not a multiple of 64 (the bit_array_ops kernels are checked on 2-5 words)', 'caller-memory wraps (thorough: attempted)', 'string / double items'],
}
def queries(tier):
    qs = []
    for nh in (1, 2):
        for (nau, nbu, op, gb) in [(1, 0, 0, 0), (2, 0, 0, 1), (2, 0, 1, 0), (1, 1, 1, 0), (1, 1, 1, 1), (2, 1, 2, 0), (1, 0, 3, 0)]:
            if tier == 'quick' and nh == 2: continue    # two hash functions: 300-900 s per query, thorough only
            qs.append(Q(f'bf_nh{nh}_a{nau}_b{nbu}_op{op}_g{gb}', 'bloom', 'c15_bloom.c', defs=dict({'NH': nh, 'NAU': nau, 'NBU': nbu, 'OP': op, 'GETBITS': gb, 'HM_MAX': 12}, **({'LIGHT': None} if (op != 0 or nau > 1) else {})), tu_defs={'VERIF_STUB_HASH': None},
                        unwind=12, unwindset={'^(harness|popc|verif_hash128|hm_key_u64|verif_mem.*|verif_new.*)$': 70}, timeout=(300 if tier == 'quick' else 1500), native_vectors=200, c_defs={'VERIF_NEW_CAPN': 64}, mem_gb=(10 if tier == 'quick' else 28)))
    if tier == 'thorough': qs.append(Q('bf_rewrap_nh1_a1', 'bloom', 'c15_bloom.c', defs={'NH': 1, 'NAU': 1, 'NBU': 0, 'OP': 0, 'GETBITS': 0, 'HM_MAX': 12, 'WITH_WRAP': 2}, tu_defs={'VERIF_STUB_HASH': None},
                unwind=12, unwindset={'^(harness|popc|verif_hash128|hm_key_u64|verif_mem.*|verif_new.*|w_bf_serialize)$': 70}, timeout=900, native_vectors=200, c_defs={'VERIF_NEW_CAPN': 64}, mem_gb=28))
    qs.append(Q('bf_wrap_nh1_a2', 'bloom', 'c15_bloom.c', defs={'NH': 1, 'NAU': 2, 'NBU': 0, 'OP': 0, 'GETBITS': 0, 'HM_MAX': 12, 'WITH_WRAP': None}, tu_defs={'VERIF_STUB_HASH': None},
                unwind=12, unwindset={'^(harness|popc|verif_hash128|hm_key_u64|verif_mem.*|verif_new.*|w_bf_serialize)$': 70}, timeout=(400 if tier == 'quick' else 1500), native_vectors=200, c_defs={'VERIF_NEW_CAPN': 64}, mem_gb=(10 if tier == 'quick' else 28)))
    for nau in ((1,) if tier == 'quick' else (1, 2)):   # (a2: ~190 s, thorough only) update() then query_and_update() with the count still pending (defect fixed in /repo, see known_findings.txt)
        qs.append(Q(f'bf_qau_dirty_nh1_a{nau}', 'bloom', 'c15_bloom.c', defs={'NH': 1, 'NAU': nau, 'NBU': 0, 'OP': 0, 'GETBITS': 0, 'HM_MAX': 12, 'QAU_DIRTY': None}, tu_defs={'VERIF_STUB_HASH': None},
                    unwind=12, unwindset={'^(harness|popc|verif_hash128|hm_key_u64|verif_mem.*|verif_new.*)$': 70}, timeout=(300 if tier == 'quick' else 1500), native_vectors=200, c_defs={'VERIF_NEW_CAPN': 64}, mem_gb=(10 if tier == 'quick' else 28)))
    qs.append(Q('bf_readonly_refuse_nh1_a1', 'bloom', 'c15_bloom.c', defs={'NH': 1, 'NAU': 1, 'NBU': 0, 'OP': 0, 'GETBITS': 0, 'HM_MAX': 12, 'WITH_WRAP': 3}, tu_defs={'VERIF_STUB_HASH': None},
                unwind=12, unwindset={'^(harness|popc|verif_hash128|hm_key_u64|verif_mem.*|verif_new.*|w_bf_serialize)$': 70}, timeout=(400 if tier == 'quick' else 1500), native_vectors=200, c_defs={'VERIF_NEW_CAPN': 64}, mem_gb=(10 if tier == 'quick' else 28)))
    # unit level: bit_array_ops kernels on multi-word arrays (every byte symbolic; symbolic bit index) -- the filter-level queries above use one 64-bit word only
    for nw in ((2, 3) if tier == 'quick' else (2, 3, 5)):
        for op in (0, 1, 2, 3):
            qs.append(Q(f'bitops_nw{nw}_op{op}', 'bloom', 'c15_bitops.c', defs={'NW': nw, 'OP': op, 'HM_MAX': 2}, tu_defs={'VERIF_STUB_HASH': None},
                        unwind=10, unwindset={'^(harness|popc|word)$': 70, '^w_bao_.*$': 8 * nw + 2}, timeout=(300 if tier == 'quick' else 900), native_vectors=200, mem_gb=8))
    return qs
