META = {
 'manifest': {'text': 'Bounded symbolic model checking of one update/trim/reset/compact/copy step of the real update_theta_sketch from every REACHABLE table state of a given small shape (tables of 2..8 slots, k=2,4): the retained set after the step equals {x in pre U {hash} : x < theta}, each once and findable; theta monotone, a seen hash, below start only with >= k entries. Plus the canonicalisation of every update overload at the real minimum lg_k=5.',
              'note': 'hash function replaced by a functionally consistent nondeterministic model; private constructor used to build tables below the public minimum (lg_k<5); tables above 8 slots only with <= 2 symbolic updates'},
 'functions_encoded': ['update_theta_sketch_alloc::update (12 overloads), trim, reset, compact, copy ctor, begin/end', 'theta_update_sketch_base::hash_and_screen, find, insert, resize, rebuild, consolidate_non_empty, get_capacity, get_stride, trim, reset',
                       'std::nth_element<uint64_t*> instantiation', 'compact_theta_sketch_alloc(const Other&, bool) + std::sort', 'canonical_double', 'theta_build_helper::starting_theta_from_p, starting_sub_multiple'],
 'bounds': 'S: lg_nom in {1,2}, table sizes 2,4,8, every entry count up to capacity, all resize factors; contents, theta, seed, hash symbolic. H: lg_k=5 public sketch, <=2 symbolic updates per overload',
 'stubs': ['MurmurHash3_x64_128 -> harness model (arbitrary function, functional consistency)'],
 'assumes': ['pre-state = any table reachable by insertions at that size (keys placed with the real find())', 'theta < start => num >= k and full-size table (rebuild post-condition, itself asserted)'],
 'outside': ['tables above 8 slots with more than 2 symbolic updates', 'std::string overload beyond dispatch', 'floating value of get_estimate in estimation mode (C06)'],
}
def queries(tier):
    qs = []
    caps = {(1,1):1,(2,1):3,(1,2):1,(2,2):2,(3,2):7}
    def masks(size, num, how):
        import itertools
        allm = [sum(1 << i for i in c) for c in itertools.combinations(range(size), num)]
        if how == 'all' or len(allm) <= 2: return allm
        return sorted({allm[len(allm) // 2], allm[0], allm[-1]}, key=lambda x: (x != allm[len(allm) // 2], x))[:how]
    for lgn in (1, 2):
        for lgc in range(1, lgn + 2):
            size, cap = 1 << lgc, caps[(lgc, lgn)]
            big = size == 8
            for num in range(0, cap + 1):
                rfs = [1, 2] if (num == cap and lgc <= lgn) else ([0] if lgc == lgn + 1 else [1])
                for rf in rfs:
                    for op in range(6):
                        if op >= 1 and num not in (0, cap, min(cap, (1 << lgn) + 1)): continue   # non-update ops: empty, just above k, and full shapes
                        rebuild = (op in (0, 1) and num == cap and lgc == lgn + 1)
                        resize = (op == 0 and num == cap and lgc <= lgn)
                        compact = op in (3, 4)
                        # quick tier: everything at k=2 (tables of 2 and 4 slots) + the k=4 tables of 2 and 4 slots without compaction;
                        # compact forms with >1 entry, resizes into / steps on the 8-slot table: thorough only (measured 100-900 s each)
                        in_quick = ((lgn == 1 and not (compact and (num > 1 or rf != 1)) and not rebuild) or (lgn == 2 and size <= 4 and not compact and not resize))
                        # measured (600 s cap): ordered compact forms of >= 2 entries (std::sort on symbolic keys + vector growth) and every
                        # rebuild() of the full 8-slot table (update with 7 entries, trim with > k entries) reach no verdict: not claimed
                        no_verdict = (op == 3 and num >= 2) or (size == 8 and (rebuild or (op == 1 and num > (1 << lgn))))
                        for tr in ('quick', 'thorough'):
                            if tier != tr or (tr == 'quick' and not in_quick) or (tr == 'thorough' and no_verdict): continue
                            how = 'all' if (size <= 4 or (op == 0 and tr == 'thorough')) else 3
                            if tr == 'quick' and (compact or (op == 5 and lgn == 2)): how = 1
                            for m in masks(size, num, how):
                                qs.append(Q(f'step_lgc{lgc}_lgn{lgn}_rf{rf}_m{m:02x}_op{op}', 'theta', 'c01_step.c',
                                            defs={'LGC': lgc, 'LGN': lgn, 'RF': rf, 'NUM': num, 'MASK': m, 'OP': op}, tu_defs={'VERIF_STUB_HASH': None},
                                            unwind=(2 << lgn) + 2, unwindset={'^(verif_hash128|hm_key_u64|harness|verif_mem(set|cpy)_.*|verif_new_.*)$': 42},
                                            timeout=(240 if tier == 'quick' else 1500), tiers=(tr,), native_vectors=300, mem_gb=(20 if compact else None), c_defs={'VERIF_NEW_CAPN': 40, 'VERIF_VEC_CAP': (2 << lgn)}))
    # reset() from a table that KEEPS its size (starting size == current size: lg_k >= 4 with X1, lg_cur = lg_k + 1 >= 5) and any theta
    for (lgc, lgn, rf, m) in [(5, 4, 0, 0x0), (5, 4, 0, 0x5), (6, 5, 0, 0x3)]:
        num = bin(m).count('1')
        qs.append(Q(f'reset_keepsize_lgc{lgc}_lgn{lgn}_rf{rf}_m{m:02x}', 'theta', 'c01_step.c', defs={'LGC': lgc, 'LGN': lgn, 'RF': rf, 'NUM': num, 'MASK': m, 'OP': 2, 'ANYTHETA': None}, tu_defs={'VERIF_STUB_HASH': None},
                    unwind=70, unwindset={'^(verif_hash128|hm_key_u64|harness|verif_mem(set|cpy)_.*|verif_new_.*)$': 80}, timeout=(240 if tier == 'quick' else 1500), native_vectors=300,
                    c_defs={'VERIF_NEW_CAPN': 70, 'VERIF_CUT_THETA_RESIZE': None, 'VERIF_CUT_THETA_REBUILD': None}))
    for t in range(11):
        for rf, pb in (((0, '0x3f800000u'), (3, '0x3f000000u')) if t in (0, 8) else ((3, '0x3f800000u'),)):
            qs.append(Q(f'canon_type{t}_rf{rf}_p{pb[2:5]}', 'theta', 'c01_canon.c', defs={'TYPE': t, 'RF': rf, 'PBITS': pb}, tu_defs={'VERIF_STUB_HASH': None},
                        unwind=34, unwindset={'^(verif_new_.*|harness|verif_mem.*)$': 70, 'w_uts_entries|begin': 66}, timeout=(240 if tier == 'quick' else 900), native_vectors=300, c_defs={'VERIF_NEW_CAPN': 66}))
    return qs
