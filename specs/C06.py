META = {
 'manifest': {'text': 'Bounded symbolic model checking of binomial_bounds::get_lower_bound / get_upper_bound (the entry points behind the Theta and Tuple sketch bounds): (i) exact mode: with theta = 1 and the REAL approximation kernels, lower == estimate == upper == retained count for every count below 2^52 and every allowed number of standard deviations; (ii) guard / clamp layer: for theta from a concrete list and every retained count, with the numerical kernels replaced by arbitrary doubles the result still satisfies lower <= estimate <= upper, lower >= retained count and is never NaN; (iii) arguments outside [0,1] x {1,2,3} are refused, inside accepted.',
              'note': 'only these three clauses: the values of the approximation kernels for theta < 1 (tables, Gaussian approximation, exact tails), monotone widening, accuracy, bias, coverage and the HLL / CPC estimators are floating-point / statistical statements outside the reach of bit-blasted IEEE arithmetic; theta is concrete per query because a 64-bit IEEE division with a symbolic divisor did not finish (400 s)'},
 'functions_encoded': ['binomial_bounds::get_lower_bound, get_upper_bound, check_theta, check_num_std_devs', 'compute_approx_binomial_lower_bound / upper_bound (real code, exact-mode query only)'],
 'bounds': 'num_samples 0..2^52 (exact mode) / 0..2^32 (clamp, theta a power of two; thorough 2^52) / 0..2^12 (clamp, other theta: ~75 s each), num_std_devs 0..5 symbolic, theta in {1, 0.5, 0.3, 2^-20, 1e-9} concrete (any non-NaN double in the argument-check query)',
 'stubs': ['compute_approx_binomial_lower_bound / upper_bound -> arbitrary double (havoc) in the clamp and argument-check queries'], 'assumes': ['theta is not NaN (argument-check query)'],
 'outside': ['values of the approximation kernels for theta < 1, interval monotonicity in num_std_devs', 'relative error / bias / coverage (statistical)', 'HLL and CPC estimators and confidence tables', 'theta values other than the listed ones in the clamp query'],
}
def queries(tier):
    import struct
    def bits(x): return struct.unpack('<Q', struct.pack('<d', x))[0]
    qs = [Q('bb_exact_theta1', 'bounds', 'c06_bounds.c', defs={'MODE': 0, 'NBITS': 52, 'THETA_BITS': f'{bits(1.0)}ULL'}, unwind=8, timeout=(300 if tier == 'quick' else 1200), native_vectors=500)]
    for th in [1.0, 0.5, 0.3, 2.0 ** -20] + ([1e-9, 0.999999] if tier == 'thorough' else []):
        qs.append(Q(f'bb_clamp_theta_{bits(th):016x}', 'bounds', 'c06_bounds.c', defs={'MODE': 1, 'NBITS': ((32 if tier == 'quick' else 52) if th in (1.0, 0.5, 2.0 ** -20) else 12), 'THETA_BITS': f'{bits(th)}ULL'}, unwind=8, timeout=(900 if tier == 'quick' else 1800), native_vectors=500,
                    c_defs={'VERIF_HAVOC_BB_LB': None, 'VERIF_HAVOC_BB_UB': None}))
    qs.append(Q('bb_argument_checks', 'bounds', 'c06_bounds.c', defs={'MODE': 2, 'NBITS': 16}, unwind=8, timeout=(300 if tier == 'quick' else 1200), native_vectors=500, slice_formula=True,
                c_defs={'VERIF_HAVOC_BB_LB': None, 'VERIF_HAVOC_BB_UB': None}))
    return qs
