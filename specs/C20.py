META = {
 'manifest': {'text': 'Bounded symbolic model checking of the counting / iteration clauses of the real density_sketch<double>: for injected level layouts (including empty intermediate and leading levels) with symbolic points, the public iterator shows exactly num_retained points, each with weight 2^level, summing to n; wrong-dimension points are refused.',
              'note': 'level contents are injected through private access (the compaction path uses std::shuffle and a floating-point kernel and is not encoded); estimate values, compaction quality, merge and the Gaussian kernel are outside the claim'},
 'functions_encoded': ['density_sketch::begin/end/const_iterator (ctor, ++, *), get_n, get_num_retained, is_empty, update (dimension check)', 'std::vector<std::vector<double>> copy/push_back instantiations'],
 'bounds': '<= 4 points in <= 4 levels, layouts {0},{0,1},{0,2},{1,3},{2},{0,0,2},{0,1,3}',
 'stubs': [], 'assumes': ['levels injected in ascending order'], 'outside': ['get_estimate (floating point kernel sums)', 'compact / compact_level (shuffle, discrepancy selection)', 'merge', 'serialization (header fix recorded under C09)'],
}
def queries(tier):
    lays = {'l0': '0', 'l01': '0, 1', 'l02': '0, 2', 'l13': '1, 3', 'l2': '2', 'l002': '0, 0, 2', 'l013': '0, 1, 3'}
    return [Q(f'density_iter_{k}', 'density', 'c20_density.c', defs={'LAYOUT_VALUES': v.replace(' ', '')}, unwind=10, unwindset={'^(harness|verif_mem.*|verif_new.*)$': 40},
              timeout=(300 if tier == 'quick' else 1500), native_vectors=100, c_defs={'VERIF_NEW_CAPN': 16}) for k, v in lays.items()]
