META = {
 'manifest': {'text': 'Bounded symbolic model checking of the real kll_sketch / quantiles_sketch (classic) / req_sketch through their public API on short symbolic int32 streams and one merge, with the internal coin as a nondeterministic harness function (all outcomes): n, exact min/max, iterator count = num_retained, weights sum to n, retained items are inputs, sorted view ascending with total cumulative weight n, rank consistent / bounded / inclusive >= exclusive, exact-mode ranks equal the true ranks, retained count within bound.',
              'note': 'item type int32 with std::less only; k at the minimum (kll 8, classic 2, req 4); streams up to ~12 items and one merge; CDF/PMF (floating point vectors), NaN handling, custom comparators outside'},
 'functions_encoded': ['kll_sketch::update/merge/compress_while_updating/find_level_to_compact/add_empty_top_level_to_completely_full_sketch/merge_higher_levels/populate_work_arrays/begin/end/get_sorted_view/get_rank', 'kll_helper::randomly_halve_up/down, merge_sorted_arrays, general_compress, level_capacity',
                       'quantiles_sketch::update/process_full_base_buffer/in_place_propagate_carry/zip_buffer/merge_two_size_k_buffers/merge', 'req_sketch::update/merge/compress, req_compactor::append/compact/promote_evens_or_odds', 'quantiles_sorted_view ctor/get_rank', 'std::sort / std::inplace_merge instantiations'],
 'bounds': 'see queries: (family, k, NA, NB, merge); all items and the query point symbolic 32-bit; every coin outcome',
 'stubs': ['random_utils::random_bit -> harness coin (hook DATASKETCHES_VERIF)'], 'assumes': [],
 'outside': ['get_CDF / get_PMF', 'float items / NaN', 'custom comparators and non-arithmetic items', 'k above the minimum, longer streams, merge trees deeper than one merge'],
}
def queries(tier):
    qs = []
    # (fam, k, k2, na, nb, merge, maxret)
    shapes = [('kll', 8, 8, 0, 0, 0, 0), ('kll', 8, 8, 3, 0, 0, 3), ('kll', 8, 8, 9, 0, 0, 9), ('kll', 8, 8, 3, 2, 1, 5), ('kll', 8, 8, 9, 3, 1, 12),
              ('qs', 2, 2, 0, 0, 0, 0), ('qs', 2, 2, 3, 0, 0, 3), ('qs', 2, 2, 5, 0, 0, 5), ('qs', 2, 2, 3, 2, 1, 5),
              ]
    if tier == 'thorough':   # req: symex of the compactor set-up (floating-point section sizing) did not finish in the quick budget
        shapes += [('qs', 2, 4, 5, 9, 1, 14)]   # kll 9+9 / 11+9 merges and classic 9 items / 5+4 merge: no verdict in 600 s
    for (fam, k, k2, na, nb, mg, mr) in shapes:
        qs.append(Q(f'{fam}_k{k}_a{na}_b{nb}_m{mg}', 'quant', 'c07_quant.c', defs=dict({'FAM': fam, 'KK': k, 'KK2': k2, 'NA': na, 'NB': nb, 'MERGE': mg, 'MAXRET': mr}, **({'LIGHT': None} if na + nb > 4 else {})),
                    unwind=max(na + nb, 8) + 4, unwindset={'^(harness|run|verif_mem.*|verif_new.*)$': 50}, timeout=(300 if tier == 'quick' else 1800), native_vectors=200,
                    c_defs={'VERIF_NEW_CAPN': 64, 'VERIF_VEC_CAP': 32}, mem_gb=(10 if tier == 'quick' else 28)))
    # classic quantiles iterator on injected (k, n) structures, incl. empty base buffer with empty low levels (n multiple of 4k)
    for (k, n) in [(2, 3), (2, 4), (2, 6), (2, 8), (2, 12), (2, 16), (2, 19), (4, 32), (4, 16), (8, 64)]:
        qs.append(Q(f'qs_iter_k{k}_n{n}', 'quant', 'c07_qs_iter.c', defs={'KK': k, 'NN': n}, unwind=30, unwindset={'^(harness|verif_mem.*|verif_new.*)$': 70}, timeout=(300 if tier == 'quick' else 1500),
                    native_vectors=100, c_defs={'VERIF_NEW_CAPN': 64, 'VERIF_VEC_CAP': 32}, mem_gb=10))
    qs.append(Q('kll_mink_chain', 'quant', 'c07_kll_mink.c', defs={'NSYM': 2}, unwind=20, unwindset={'^(harness|verif_mem.*|verif_new.*)$': 70}, timeout=(300 if tier == 'quick' else 1500),
                native_vectors=100, c_defs={'VERIF_NEW_CAPN': 64, 'VERIF_VEC_CAP': 32}, mem_gb=10))
    # kll iterator on injected level populations, incl. empty level 0 / empty intermediate levels
    for name, pops in [('p3', '3'), ('p04', '0,4'), ('p104', '1,0,4'), ('p0004', '0,0,0,4'), ('p222', '2,2,2'), ('p020', '0,2,0')]:
        qs.append(Q(f'kll_iter_{name}', 'quant', 'c07_kll_iter.c', defs={'POPS': pops}, unwind=14, unwindset={'^(harness|verif_mem.*|verif_new.*)$': 70}, timeout=(300 if tier == 'quick' else 1500),
                    native_vectors=100, c_defs={'VERIF_NEW_CAPN': 64, 'VERIF_VEC_CAP': 32}, mem_gb=10))
    return qs
