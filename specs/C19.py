META = {
 'manifest': {'text': 'Bounded symbolic model checking of value semantics and allocation balance for kll_sketch<int32> and quantiles_sketch<int32> (std::allocator): copy / move construction, copy / move / self assignment on sketches holding symbolic items: the copy equals the source (n, min, max, retained items and weights), is independent of later source updates and of the source\'s destruction, a moved-from sketch is assignable and destructible, every operator new block is released (runtime counter) and cbmc\'s pointer checks show no double free / use after free on the real code. update_theta_sketch copies are checked in C01 (op5).',
              'note': 'two families, arithmetic items, std::allocator only; instrumented item types, custom stateful allocators and the remaining families are outside the claim'},
 'functions_encoded': ['kll_sketch copy/move ctor, operator=(const&), operator=(&&), dtor, update, iterators', 'quantiles_sketch copy/move ctor, assignments, dtor'],
 'bounds': 'k minimum (kll 8, classic 2), <= 3 symbolic items before the script, 5 scripts',
 'stubs': ['random_utils::random_bit -> nondeterministic coin'], 'assumes': [], 'outside': ['non-trivial item types (strings, instrumented)', 'user allocators with size-matching ledger', 'theta/tuple/HLL/CPC/var_opt/EBPPS/REQ/FI/Bloom lifecycles'],
}
def queries(tier):
    qs = []
    for fam, k in (('kll', 8), ('qs', 2)):
        for script in range(5):
            for na in ((3,) if tier == 'quick' else (0, 3, 5)):
                qs.append(Q(f'{fam}_script{script}_a{na}', 'quant', 'c19_life.c', defs={'FAM': fam, 'KK': k, 'NA': na, 'SCRIPT': script}, unwind=12,
                            unwindset={'^(harness|take|same|verif_mem.*|verif_new.*)$': 40}, timeout=(300 if tier == 'quick' else 1500), native_vectors=100,
                            c_defs={'VERIF_NEW_CAPN': 64, 'VERIF_VEC_CAP': 32}, mem_gb=(10 if tier == 'quick' else 28)))
    return qs
