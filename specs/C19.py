META = {
 'manifest': {'text': 'Bounded symbolic model checking of value semantics and allocation balance for kll_sketch<int32> and quantiles_sketch<int32> (std::allocator): copy / move construction, copy / move / self assignment on sketches holding symbolic items: the copy equals the source (n, min, max, retained items and weights), is independent of later source updates and of the source\'s destruction, a moved-from sketch is assignable and destructible, every operator new block is released (runtime counter) and cbmc\'s pointer checks show no double free / use after free on the real code. update_theta_sketch copies are checked in C01 (op5).',
              'note': 'two families with arithmetic items plus kll over an instrumented item type (live-object ledger), std::allocator only; custom stateful allocators and the remaining families are outside the claim'},
 'functions_encoded': ['kll_sketch copy/move ctor, operator=(const&), operator=(&&), dtor, update, iterators', 'quantiles_sketch copy/move ctor, assignments, dtor'],
 'bounds': 'k minimum (kll 8, classic 2), <= 3 symbolic items before the script, 5 scripts; instrumented-item kll: 9+9 items (both past exact mode), merge by reference / by move, copy + assign',
 'stubs': ['random_utils::random_bit -> nondeterministic coin'], 'assumes': [], 'outside': ['non-trivial item types (strings, instrumented)', 'user allocators with size-matching ledger', 'theta/tuple/HLL/CPC/var_opt/EBPPS/REQ/FI/Bloom lifecycles'],
}
def queries(tier):
    qs = []
    for fam, k in (('kll', 8), ('qs', 2)):
        for script in range(5):
            for na in ((3,) if tier == 'quick' else (0, 3, 5)):
                qs.append(Q(f'{fam}_script{script}_a{na}', 'quant', 'c19_life.c', defs={'FAM': fam, 'KK': k, 'NA': na, 'SCRIPT': script}, unwind=12,
                            unwindset={'^(harness|take|same|verif_mem.*|verif_new.*)$': 40}, timeout=(300 if tier == 'quick' else 1500), native_vectors=100,
                            c_defs={'VERIF_NEW_CAPN': 64, 'VERIF_VEC_CAP': 32}, mem_gb=(10 if tier == 'quick' else 28)))
    # instrumented item type: constructed / destroyed exactly once, also through merges of sketches past exact mode
    for (na, nb, script, ns) in [(3, 2, 0, 1), (9, 9, 0, 1), (9, 9, 1, 1), (9, 3, 2, 1)] + ([(13, 9, 0, 1), (9, 12, 0, 2)] if tier == 'thorough' else []):
        qs.append(Q(f'klli_a{na}_b{nb}_script{script}', 'kll_items', 'c19_kll_items.c', defs={'NA': na, 'NB': nb, 'SCRIPT': script, 'NSYM': ns}, unwind=max(na, nb) + 6,
                    unwindset={'^(harness|verif_mem.*|verif_new.*)$': 40, '^verif_item_(ctor|dtor)$': 50}, timeout=(400 if tier == 'quick' else 1800), native_vectors=100,
                    c_defs={'VERIF_NEW_CAPN': 64, 'VERIF_VEC_CAP': 32}, mem_gb=(16 if tier == 'quick' else 28)))
    # var_opt over the instrumented item type, incl. assignment onto a sketch that has left warm-up
    # (past warm-up, NA > k, symex of the heap / reservoir transition with random draws did not finish: only warm-up shapes)
    # inj = 1 / 2: A (and B) put into the resting estimation-mode state by injection (gap slot constructed, filled_data_ set) before the script runs
    for (na, nb, script, inj) in [(1, 1, 0, 0), (2, 1, 0, 0), (2, 1, 1, 0), (2, 0, 2, 0), (2, 0, 3, 0), (2, 1, 0, 1), (2, 2, 0, 2), (2, 1, 1, 1), (2, 2, 1, 2), (2, 0, 2, 1), (2, 0, 3, 1)]:
        qs.append(Q(f'voi_a{na}_b{nb}_script{script}' + (f'_est{inj}' if inj else ''), 'varopt_items', 'c19_vo_items.c', defs=dict({'NA': na, 'NB': nb, 'SCRIPT': script}, **({'INJECT_EST': inj} if inj else {})), tu_defs={'__OPT': '-O1 -fno-pic'}, unwind=12,
                    unwindset={'^(harness|verif_mem.*|verif_new.*)$': 40, '^verif_item_(ctor|dtor)$': 26}, timeout=(400 if tier == 'quick' else 1800), native_vectors=100,
                    c_defs={'VERIF_NEW_CAPN': 40}, mem_gb=(16 if tier == 'quick' else 28)))
    return qs
