META = {
 'manifest': {'text': 'Bounded symbolic model checking of the real count_min_sketch<uint64_t> (1-2 rows x 3-4 buckets, per-row hash as an arbitrary function): merge accepted iff shape and seed agree (seeds symbolic 64-bit), self merge refused; after splitting up to 3 symbolic weighted updates between two sketches, merge gives exactly the cells of one sketch fed both streams; total weight exact; for a symbolic query item truth <= estimate <= total and lower <= estimate <= upper.',
              'note': 'MurmurHash3 per row replaced by a harness model; seeds injected into constructed sketches (std::default_random_engine is not run on symbolic seeds); the probabilistic over-estimate clause, negative/double weights and string items outside'},
 'functions_encoded': ['count_min_sketch::ctor/get_hashes/update/get_estimate/get_lower_bound/get_upper_bound/get_total_weight/merge/begin/end', 'compute_seed_hash / MurmurHash3_x64_128 (un-stubbed where the code calls it on the seed)'],
 'bounds': 'num_hashes 1..2, num_buckets 3..4, <= 3 symbolic (item, weight<=10^6) updates, one merge, one symbolic query item',
 'stubs': ['MurmurHash3_x64_128 inside get_hashes -> harness model'], 'assumes': ['weights non-negative <= 10^6'], 'outside': ['confidence clause (statistical)', 'signed / double weights', 'string items', 'serialization (C09/C11 thorough)'],
}
def queries(tier):
    qs = [Q('cm_merge_acceptance', 'countmin', 'c14_cm.c', defs={'PART': 0, 'NHASH': 1, 'NBUCK': 3, 'NU': 0}, tu_defs={'VERIF_STUB_HASH': None}, unwind=12,
            unwindset={'^(harness|verif_hash128|verif_mem.*|verif_new.*)$': 40}, timeout=(400 if tier == 'quick' else 1800), native_vectors=200, c_defs={'VERIF_NEW_CAPN': 16, 'VERIF_VEC_CAP': 8})]
    for (nh, nb, nu) in [(1, 3, 1), (1, 3, 2), (2, 3, 2)] + ([(2, 4, 3)] if tier == 'thorough' else []):   # (1, 5, 3): modulo 5 with three updates, no verdict in 1800 s
        qs.append(Q(f'cm_linear_h{nh}_b{nb}_u{nu}', 'countmin', 'c14_cm.c', defs={'PART': 1, 'NHASH': nh, 'NBUCK': nb, 'NU': nu, 'HM_MAX': 12}, tu_defs={'VERIF_STUB_HASH': None}, unwind=12,
                    unwindset={'^(harness|verif_hash128|verif_mem.*|verif_new.*)$': 40}, timeout=(400 if tier == 'quick' else 1800), native_vectors=200, c_defs={'VERIF_NEW_CAPN': 16, 'VERIF_VEC_CAP': 8}))
    return qs
