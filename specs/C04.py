META = {
 'manifest': {'text': 'Bounded symbolic model checking, at the unit level only, of the register merge the HLL union performs (Hll8Array::mergeHll, the gadget is always HLL_8): for an HLL-mode input of every register width (4 with aux exceptions, 6, 8 bits) and lg_k equal to or larger than the gadget (lg_k 4 and 5 -> 4), built from a concrete coupon prefix plus one symbolic coupon, every gadget register afterwards equals the maximum of its previous value and of all input registers folding onto it, and the input is unchanged.',
              'note': 'ONLY the six register-merge kernels of mergeHll: the union driver (union_impl: mode dispatch over list / set / HLL inputs, gadget replacement and down-sampling, lg_max_k handling, order independence across several inputs, raw updates, estimator rebuild) branches on isEmpty() of a symbolic register file and did not reach a verdict (harness/c04_union.c, specs_disabled/C04_union.py); the loss of a down-sampled first input found there by hand is fixed in /repo (2803cd5)'},
 'functions_encoded': ['Hll8Array::mergeHll (same-k and fold-down branches for HLL_8 / HLL_6 / HLL_4 sources)', 'Hll4Array::adjustRawValue + AuxHashMap::mustFindValueFor', 'Hll4/6/8Array::couponUpdate (input construction, as in C03)'],
 'bounds': 'gadget lg_k 4; source lg_k 4 or 5, width 4 / 6 / 8; concrete prefixes (incl. aux exceptions) + 1 symbolic coupon (any slot, value 1..63)',
 'stubs': ['HllArray::hipAndKxQIncrementalUpdate -> no-op (estimator state is rebuilt by the union afterwards, outside the claim)', 'Hll4Array::shiftToBiggerCurMin -> assert-unreachable cut (discharged by the solver)'], 'assumes': [],
 'outside': ['hll_union::update / union_impl driver, list and set mode inputs, lg_max_k reduction of the gadget, get_result, order independence over more than one merge', 'sources with cur_min > 0', 'lg_k > 5'],
}
def queries(tier):
    qs = []
    def cp(slot, val): return f'{(val << 26) | slot}u,'
    dpre = cp(1, 5) + cp(3, 30) + cp(9, 2)
    spre4 = cp(3, 20) + cp(5, 2) + cp(9, 7)          # slot 3 -> aux exception for HLL_4
    spre5 = cp(3, 20) + cp(19, 25) + cp(21, 2) + cp(9, 1) + cp(25, 40)   # 19 & 15 = 3, 21 & 15 = 5, 25 & 15 = 9: two source slots fold onto one
    for src in (8, 6, 4):
        for slg in (4, 5):
            qs.append(Q(f'hll_merge_src{src}_lg{slg}', 'hll_arrays', 'c04_merge.c', defs={'SRC': src, 'SLG': slg, 'DPREFIX': dpre, 'SPREFIX': (spre4 if slg == 4 else spre5)},
                        tu_defs={'__OPT': '-O1 -fno-inline-functions -fno-inline -fno-pic'}, unwind=36, unwindset={'^(harness|verif_mem.*|verif_new.*)$': 70}, timeout=(400 if tier == 'quick' else 1500), native_vectors=300,
                        c_defs={'VERIF_NEW_CAPN': 40, 'VERIF_VEC_CAP': 8, 'VERIF_CUT_HLL4_SHIFT': None, 'VERIF_SKIP_HLL_KXQ': None}, slice_formula=True, mem_gb=10))
    return qs
