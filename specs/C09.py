META = {
 'manifest': {'text': 'Bounded symbolic model checking of the real serializer kernels: per bit width 1..63 the solver shows pack/unpack of a block of eight arbitrary values round-trips for ANY prior buffer content (this found the pack_bits_19 defect). Bytes path only.', 'note': 'cbmc + clang -O1 lowering + ll2c translation (validated per run); stream paths, string items and sizes above the bounds are outside the claim'},
 'functions_encoded': ['pack_bits_block8 -> pack_bits_1..63', 'unpack_bits_block8 -> unpack_bits_1..63'],
 'bounds': 'one block of 8 values per bit width 1..63; symbolic 64-byte scratch buffer',
 'stubs': [], 'assumes': ['values fit in BITS bits (caller contract of pack_bits_block8)'], 'outside': ['std::ostream/istream paths'],
}
def queries(tier):
    qs = []
    for b in range(1, 64):
        qs.append(Q(f'bp_block8_w{b}', 'bitpack', 'c09_bp_block8.c', defs={'BITS': b}, unwind=66, timeout=200, native_vectors=100))
    return qs
