META = {
 'manifest': {'text': 'Bounded symbolic model checking of the real serializer kernels: per bit width 1..63 the solver shows pack/unpack of a block of eight arbitrary values round-trips for ANY prior buffer content (this found the pack_bits_19 defect). Bytes path only.', 'note': 'cbmc + clang -O1 lowering + ll2c translation (validated per run); stream paths, string items and sizes above the bounds are outside the claim'},
 'functions_encoded': ['pack_bits_block8 -> pack_bits_1..63', 'unpack_bits_block8 -> unpack_bits_1..63'],
 'bounds': 'one block of 8 values per bit width 1..63; symbolic 64-byte scratch buffer',
 'stubs': [], 'assumes': ['values fit in BITS bits (caller contract of pack_bits_block8)'], 'outside': ['std::ostream/istream paths'],
}
def queries(tier):
    qs = []
    for b in range(1, 64):
        qs.append(Q(f'bp_block8_w{b}', 'bitpack', 'c09_bp_block8.c', defs={'BITS': b}, unwind=66, timeout=200, native_vectors=100))
    qs.append(Q('theta_num_entries_bytes', 'theta_serde', 'c09_numbytes.c', unwind=8, timeout=300, native_vectors=200, c_defs={'VERIF_NEW_CAPN': 8}, extra_flags=['--no-pointer-check'], note='pointer checks off: the wrapper fakes entries_.size() by moving the end pointer out of bounds (never dereferenced)'))
    for nv in (0,):   # with buffered values (nv >= 1) the queries had no verdict in 600 s
        for h in (1, 8):
            qs.append(Q(f'td_header_nv{nv}_h{h}', 'serde_td', 'c09_td_header.c', defs={'NV': nv, 'HEADER': h}, unwind=12,
                        unwindset={'^harness$': 170, '^(verif_mem.*|verif_new.*|emit.*)$': 260}, timeout=(200 if tier == 'quick' else 1500), native_vectors=50, c_defs={'VERIF_NEW_CAPN': 250, 'VERIF_VEC_CAP': 130, 'VERIF_CUT_TD_COMPRESS': None}, mem_gb=(8 if tier == 'quick' else 28)))
    return qs
