META = {
 'manifest': {'text': 'Bounded symbolic model checking of the exact-mode (warm-up) clauses of the real var_opt_sketch<uint32>: for up to k updates with symbolic items and arbitrary 64-bit weight patterns, invalid weights (negative, NaN, infinite) are refused, zero weights ignored, n counts the accepted updates, the sketch holds exactly n samples, each an input item with its input weight bit for bit.',
              'note': 'only the phase n <= k (no randomness, no heavy/light transitions): transition_from_warmup is cut with an assert-unreachable discharged by the solver; weight conservation in estimation mode, subset-sum bounds, unions and unbiasedness are floating-point / statistical and outside the claim'},
 'functions_encoded': ['var_opt_sketch::update / update_warmup_phase / grow_data_arrays / get_n / get_num_samples / begin / end / const_iterator'],
 'bounds': 'k in {2, 4}, <= k updates', 'stubs': ['var_opt_sketch::transition_from_warmup -> assert-unreachable cut'], 'assumes': [],
 'outside': ['estimation mode (n > k): heavy / light updates, candidate set growth and random deletion', 'var_opt_union', 'subset-sum estimates and bounds'],
}
def queries(tier):
    return [Q(f'vo_warmup_k{k}_u{nu}', 'varopt', 'c16_vo.c', defs={'KK': k, 'NU': nu}, unwind=12, unwindset={'^(harness|verif_mem.*|verif_new.*)$': 40}, timeout=(300 if tier == 'quick' else 1500),
              native_vectors=300, c_defs={'VERIF_NEW_CAPN': 40, 'VERIF_CUT_VO_TRANSITION': None}, mem_gb=10) for (k, nu) in ([(2, 0), (2, 2), (4, 3)] + ([(4, 4), (8, 5)] if tier == 'thorough' else []))]
