META = {
 'manifest': {'text': 'Bounded symbolic model checking with self-composition over coin schedules: the real code is run once per outcome sequence of the internal fair coin (hook) inside one query and, for a symbolic stream and query point, the weighted rank summed over all 2^c outcomes must equal 2^c times the true rank, with the same number of flips in every run. Instances: kll_helper::general_compress on two-level work buffers (odd/even populations), kll_sketch / classic quantiles_sketch public API with one compaction, halving kernels.',
              'note': 'c <= 2 coin flips per instance; k at the minimum; the long-stream published-error clause is statistical and outside the claim'},
 'functions_encoded': ['kll_helper::general_compress, randomly_halve_up, randomly_halve_down, merge_sorted_arrays, level_capacity, compute_total_capacity', 'kll_sketch::update -> compress_while_updating', 'quantiles_sketch::update -> process_full_base_buffer -> zip_buffer', 'std::sort<int*>'],
 'bounds': 'general_compress: k=8, m=8, level populations (P0,P1) in {(9,8),(10,8),(13,4),(12,8),(8,8)}; sketches: kll k=8 with 9 items, classic k=2 with 4..5 items; all items and the query point symbolic int32',
 'stubs': ['random_utils::random_bit -> harness-supplied coin schedule (hook DATASKETCHES_VERIF)'], 'assumes': ['levels above 0 of the work buffer ascending (sketch invariant, asserted as post-condition too)'],
 'outside': ['error within published epsilon on long streams (statistical)', 'REQ (state space: first compaction needs 24+ items)', 'c > 2 coin flips, k above the minimum'],
}
def queries(tier):
    qs = []
    # (k, m, P0, P1, sorted0, coins): m = 2 is below the sketch's public minimum (8) but drives the same code with short levels,
    # which keeps std::sort of the unsorted level 0 small enough for the SAT proof
    shapes = [(2, 2, 3, 2, 0, 2), (2, 2, 4, 2, 0, 2), (2, 2, 5, 2, 0, 2), (4, 2, 5, 3, 0, 1), (8, 8, 8, 8, 1, 1)]
    if tier == 'thorough': shapes += [(8, 8, 9, 8, 1, 1)]   # k=8 with an UNSORTED level 0 of 9..13 items: no verdict in 600 s (sort of 9+ symbolic items)
    for (k, m, p0, p1, s0, c) in shapes:
        qs.append(Q(f'kll_general_compress_k{k}_m{m}_p{p0}_{p1}_s{s0}', 'quant', 'c08_kll_compress.c', defs={'KK': k, 'MM': m, 'P0': p0, 'P1': p1, 'SORTED0': s0, 'COINS': c},
                    unwind=p0 + p1 + 3, unwindset={'^harness$': 40}, timeout=(300 if tier == 'quick' else 1800), native_vectors=300, c_defs={'VERIF_NEW_CAPN': 64}, mem_gb=(10 if tier == 'quick' else 28)))
    # public API, one compaction (c = 1): same harness as C07 with COINS
    for (fam, k, na, c) in [('qs', 2, 4, 1)] + ([('kll', 8, 9, 1), ('qs', 2, 5, 1)] if tier == 'thorough' else []):
        qs.append(Q(f'{fam}_k{k}_a{na}_coins{c}', 'quant', 'c07_quant.c', defs={'FAM': fam, 'KK': k, 'KK2': k, 'NA': na, 'NB': 0, 'MERGE': 0, 'MAXRET': 99, 'COINS': c, 'LIGHT': None},
                    unwind=na + 6, unwindset={'^(harness|run|verif_mem.*|verif_new.*)$': 50}, timeout=(300 if tier == 'quick' else 1800), native_vectors=200,
                    c_defs={'VERIF_NEW_CAPN': 64, 'VERIF_VEC_CAP': 32}, mem_gb=(10 if tier == 'quick' else 28)))
    return qs
