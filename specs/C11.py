META = {
 'manifest': {'text': 'Bounded symbolic model checking of the real bytes-path readers on truncated / corrupted images: for each image kind and EVERY prefix length (one query each, length concrete, payload symbolic) the reader must throw and cbmc pointer checks show no byte outside an exact-size heap buffer is touched; for every preamble byte position a symbolic replacement value leads to an exception or a sketch whose getters and full iteration stay inside the buffer. HLL family at the unit level only: the bytes reader of the HLL_4 auxiliary exception table (AuxHashMap::deserialize) rejects every table shorter than its header fields announce without touching a byte outside the buffer, and an accepted table holds exactly aux_count entries.',
              'note': 'images of serial version 3 come from the real serializer; legacy v1/v2 images are written by the harness from the documented layout; stream path, corruption beyond the preamble and leak balance outside the claim'},
 'functions_encoded': ['compact_theta_sketch_parser::parse / check_memory_size', 'compact_theta_sketch_alloc::deserialize(bytes) / serialize(header)', 'wrapped_compact_theta_sketch_alloc::wrap + const_iterator', 'compute_seed_hash', 'kll_sketch / quantiles_sketch / tdigest deserialize(bytes) (generic prefix harness)', 'AuxHashMap::deserialize(bytes, len, ...) + mustAdd (unit level)'],
 'bounds': 'theta: images with 0..2 entries, exact and estimation mode, serial versions 1,2,3; every prefix length 0..size-1; every preamble byte position with an arbitrary replacement byte',
 'stubs': [], 'assumes': ['image payload: ascending distinct non-zero hashes below theta'],
 'outside': ['whole HLL / CPC / REQ / count-min / frequent-items images (no verdict)', 'AuxHashMap reader with symbolic header fields (concrete per query: lg_aux_arr_ints 2..3, aux_count 1..3)', 'std::istream path', 'corruption beyond the preamble', 'compressed (serial version 4) images with symbolic payload', 'families other than those listed in bounds'],
}
GENERIC = [('kllm', 'serde_kll', 2, 60, 20), ('kll', 'serde_kll', 0, 8, 12), ('kll', 'serde_kll', 1, 12, 12), ('kll', 'serde_kll', 2, 40, 12), ('kll', 'serde_kll', 3, 44, 12),
           ('qs', 'serde_qs', 0, 8, 12), ('qs', 'serde_qs', 1, 28, 12), ('qs', 'serde_qs', 3, 36, 12),
           ]
GENERIC_THOROUGH = []   # req, count-min and frequent-items images (wrappers/serde_req.cpp, serde_cm.cpp, serde_fi.cpp): full-image queries did not reach a verdict in 900 s; not claimed
def queries(tier):
    qs = []
    def size(kind, n, est):
        if kind == 3: return 8 if (n == 0 and not est) else (16 if (n == 1 and not est) else (24 if est else 16) + 8 * n)
        if kind == 1: return 24 + 8 * n
        return 8 * (1 if (n == 0 and not est) else (3 if est else 2)) + 8 * n
    shapes = [(3, 0, 0), (3, 1, 0), (3, 2, 0), (4, 1, 1), (4, 2, 1), (4, 2, 0), (1, 0, 0), (1, 2, 0), (1, 1, 1), (2, 0, 0), (2, 2, 0), (2, 1, 1)]
    for (kind, n, est) in shapes:
        sz = size(3 if kind == 4 else kind, n, est)
        for mode in (0, 1):
            for m in range(0, sz):
                if tier == 'quick' and not (m in (0, 7, 8, 11, 12, 16, 23, 24, sz - 1)): continue
                if tier == 'quick' and mode == 1 and m not in (7, 8, 16, sz - 1): continue
                if tier == 'thorough' and mode == 1 and m % 2 == 1 and m != sz - 1: continue
                if tier == 'quick' and (kind, n, est) in ((1, 0, 0), (2, 0, 0), (4, 2, 0), (3, 1, 0)) and m not in (7, sz - 1): continue
                qs.append(Q(f'theta_v{kind}_n{n}_e{est}_mode{mode}_trunc{m:02d}', 'theta_serde', 'c11_theta.c',
                            defs={'KIND': kind, 'N': n, 'EST': est, 'M': m, 'MODE': mode, 'CORRUPT': -1}, unwind=6,
                            unwindset={'^(harness|put64|put32|w_cts_serialize|w_cts_make|verif_mem.*|verif_new.*)$': 70}, timeout=(200 if tier == 'quick' else 900), native_vectors=50,
                            c_defs={'VERIF_NEW_CAPN': 8}, mem_gb=20))
            npre = min(sz, 24)
            for p in range(0, npre):
                if tier == 'quick' or mode == 1 or p not in (3, 4, 5) or (kind, n, est) not in ((3, 2, 0), (4, 2, 1), (2, 2, 0)): continue   # bytes 0,1,2,6,7 (preamble size, serial version, family, seed hash) fan out over every reader: no verdict in 600 s;    # corruption queries fan out over all readers (200-600 s each): thorough tier, three shapes, the 8 preamble bytes
                qs.append(Q(f'theta_v{kind}_n{n}_e{est}_mode{mode}_corrupt{p:02d}', 'theta_serde', 'c11_theta.c',
                            defs={'KIND': kind, 'N': n, 'EST': est, 'M': 0, 'MODE': mode, 'CORRUPT': p}, unwind=6,
                            unwindset={'^(harness|put64|put32|w_cts_serialize|w_cts_make|verif_mem.*|verif_new.*)$': 70}, timeout=1500, native_vectors=50,
                            c_defs={'VERIF_NEW_CAPN': 8}, mem_gb=24))
    # tdigest<double>: images written from the documented layout
    for (nc, nb, single) in ((0, 0, 0), (1, 0, 1), (1, 1, 0), (0, 2, 0), (2, 3, 0)):
        size = 8 if nc + nb == 0 else (16 if single else 32 + 16 * nc + 8 * nb)
        for m in range(0, size + 1):
            if tier == 'quick' and not (m % 8 == 0 or m >= size - 8 or m in (9, 15, 17, 31, 33)): continue
            qs.append(Q(f'td_c{nc}_b{nb}_s{single}_trunc{m:03d}', 'serde_td', 'c11_td.c', defs={'NC': nc, 'NB': nb, 'SINGLE': single, 'M': m}, unwind=12,
                        unwindset={'^harness$': 130, '^(verif_mem.*|verif_new.*|put64|put32)$': 260}, timeout=(200 if tier == 'quick' else 900), native_vectors=50, c_defs={'VERIF_NEW_CAPN': 250}, mem_gb=16))
    # HLL_4 images (lg_k 4, HLL mode, one aux exception): compact (52 bytes) and updatable (64 bytes)
    for (kind, size) in ():   # ((0, 52), (1, 64)): attempted, symex of AuxHashMap::deserialize with a symbolic exception count had no verdict in 300 s; not claimed
        for m in range(0, size + 1):
            if tier == 'quick': continue
            qs.append(Q(f'hll4_kind{kind}_trunc{m:03d}', 'serde_hll', 'c11_hll.c', defs={'KIND': kind, 'SIZE': size, 'M': m}, tu_defs={'__OPT': '-O1 -fno-inline-functions -fno-inline -fno-pic'}, unwind=20,
                        unwindset={'^harness$': 140, '^(verif_mem.*|verif_new.*|fnv.*|emit.*)$': 140, '^_ZN.*AuxHashMap': 7}, timeout=(300 if tier == 'quick' else 1200), native_vectors=50,
                        c_defs={'VERIF_NEW_CAPN': 70, 'VERIF_VEC_CAP': 8, 'VERIF_CUT_HLL4_SHIFT': None, 'VERIF_SKIP_HLL_KXQ': None, 'VERIF_CUT_HLL_AUX_GROW': None}, slice_formula=True, mem_gb=16))
    # generic families: (fam, tu, nv, size) ; sizes recorded from the real serializer (asserted in the harness)
    for (fam, tu, nv, size, unw) in (GENERIC + (GENERIC_THOROUGH if tier == 'thorough' else [])):
        for m in range(0, size + 1):    # m == size: full image, round trip (C09)
            if tier == 'quick' and not (m % 4 == 0 or m >= size - 1): continue
            qs.append(Q(f'{fam}_nv{nv}_trunc{m:03d}', tu, 'c11_prefix.c', defs=dict({'FAM': fam, 'NV': nv, 'SIZE': size, 'M': m}, **({'USE_HASHMODEL': None} if fam == 'cm' else {})), tu_defs=({'VERIF_STUB_HASH': None} if fam == 'cm' else {}), unwind=unw,
                        unwindset={'^harness$': 260, '^(verif_mem.*|verif_new.*|fnv.*|emit.*)$': 140}, timeout=(200 if tier == 'quick' else 900), native_vectors=50, c_defs={'VERIF_NEW_CAPN': (120 if fam == 'req' else 40)}, mem_gb=16))
    # HLL family, unit level: bytes reader of the HLL_4 auxiliary exception table; header fields concrete per query (symbolic ones: no verdict), one symbolic pair
    for (compact, lg, auxc, ln, nsym) in [(0, 2, 1, 0, 0), (0, 2, 1, 8, 1), (0, 2, 2, 12, 1), (0, 2, 1, 16, 1), (0, 3, 1, 16, 1), (0, 3, 2, 28, 1), (1, 2, 2, 0, 0), (1, 2, 2, 4, 1), (1, 2, 2, 8, 1), (1, 2, 3, 8, 1)]:
        qs.append(Q(f'hll_aux_c{compact}_lg{lg}_n{auxc}_len{ln:02d}_s{nsym}', 'hll_aux', 'c11_hll_aux.c', defs={'COMPACT': compact, 'LGARR': lg, 'AUXC': auxc, 'LEN': ln, 'NSYM': nsym}, tu_defs={'__OPT': '-O1 -fno-inline-functions -fno-inline -fno-pic'},
                    unwind=12, unwindset={'^(harness|verif_mem.*|verif_new.*)$': 40}, timeout=(300 if tier == 'quick' else 1200), native_vectors=300,
                    c_defs={'VERIF_NEW_CAPN': 40, 'VERIF_CUT_HLL_AUX_GROW': None}, mem_gb=10))
    return qs
