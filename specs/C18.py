META = {
 'manifest': {'text': 'Bounded symbolic model checking of the bookkeeping clauses of the real ebpps_sketch<uint32> for equal weights and n <= k: for symbolic items of weight 1.0, n and the cumulative weight are exact, the expected sample size c equals n, the sample is exactly the multiset of inputs (no partial item, no random draw), an invalid weight (any negative / NaN / infinite 64-bit pattern) is refused and a zero weight ignored without changing anything, and a merge of two such sketches adds n and cumulative weight, keeps the smaller k and every item.',
              'note': 'weights are the concrete value 1.0 (every division of the rho / c bookkeeping then has concrete operands; symbolic weights need 64-bit IEEE divisions with symbolic divisors, which did not finish elsewhere); streams longer than k, unequal weights, fractional c, the floor(c)/ceil(c) sample-size clause and the inclusion probabilities (statistical) are outside the claim'},
 'functions_encoded': ['ebpps_sketch::update / internal_update / merge / get_n / get_cumulative_weight / get_c / get_k / is_empty', 'ebpps_sample::replace_content / merge / downsample (early return) / get_c / has_partial_item'],
 'bounds': 'k in {2, 4}, <= k items of weight 1.0 (symbolic item values), one invalid-or-zero symbolic weight offered to a fresh sketch (after valid updates the symbolic weight made symex explore the sampling code: no verdict in 200 s), one merge with n1 + n2 <= min k',
 'stubs': ['random_utils (hook) -> nondeterministic draws, counted: none may happen in the update queries', 'ebpps_sample::downsample / merge -> assert-unreachable cuts in the invalid-weight query (first update of a fresh sketch): the solver proves the refused / ignored update never reaches them'], 'assumes': [],
 'outside': ['n > k, unequal weights, fractional c, sample size floor(c)/ceil(c)', 'inclusion probability proportional to weight (statistical)', 'serialization', 'rvalue merge'],
}
def queries(tier):
    qs = []
    for (k, nu, bad, nb, kb) in [(2, 0, 0, 0, 2), (2, 2, 0, 0, 2), (4, 3, 0, 0, 4), (2, 0, 1, 0, 2), (4, 2, 0, 2, 4), (4, 1, 0, 1, 2)] + ([(4, 4, 0, 0, 4), (4, 3, 0, 1, 4)] if tier == 'thorough' else []):
        d = {'KK': k, 'NU': nu, 'NB': nb, 'KB': kb}
        if bad: d['BAD'] = None
        qs.append(Q(f'eb_k{k}_u{nu}' + ('_bad' if bad else '') + (f'_merge{nb}_k{kb}' if nb else ''), 'ebpps', 'c18_ebpps.c', defs=d, unwind=12, unwindset={'^(harness|verif_mem.*|verif_new.*)$': 40},
                    timeout=(300 if tier == 'quick' else 1500), native_vectors=300, c_defs=dict({'VERIF_NEW_CAPN': 40, 'VERIF_VEC_CAP': 8}, **({'VERIF_CUT_EB_DOWNSAMPLE': None, 'VERIF_CUT_EB_SAMPLE_MERGE': None} if (bad and nu == 0) else {})), mem_gb=10))
    # attempted (harness/c18_merge.c): merges with unequal concrete weights where the merged-in sketch has a fractional c / partial item, random draws symbolic:
    # the draws steer subsample / swap_with_partial, symex ran out of memory (rc 6) or time (250 s) for 3+2 and 2+2 items; not claimed
    return qs
