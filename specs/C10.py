META = {
 'manifest': {'text': 'Bounded symbolic differential checking: the library hash functions (un-stubbed, from the IR of MurmurHash3.h / xxhash64.h) equal reference implementations written from the published algorithms for every key of a given length (one query per length) and every 64-bit seed; compute_seed_hash; plus readers written from the documented layout accept harness-written legacy images (theta v1/v2/v3, tdigest) with the documented content (queries shared with C11: full-length images).',
              'note': 'hash key lengths 0..16 (murmur) and 0..40 (xxhash) only; layouts checked for compact theta (serial versions 1-3), tdigest and array-of-doubles tuple (0-2 entries, 1-3 values); the shipped .sk files and the baseline corpus are concrete inputs outside a solver claim'},
 'functions_encoded': ['MurmurHash3_x64_128', 'XXHash64::hash/add/process/hash()', 'compute_seed_hash', 'compact_theta_sketch_parser::parse (v1, v2, v3 images written from the layout)', 'tdigest::deserialize (image written from the layout)', 'compact_array_tuple_sketch<array<double>>::serialize(bytes) / deserialize(bytes) (image of a sketch built from parts vs the documented layout)'],
 'bounds': 'murmur: every key length 0..16 (one 16-byte block + every tail length); xxhash: lengths 0..8, 12, 16, 31, 32, 40 (stripe loop once + every tail kind); seed symbolic 64-bit',
 'stubs': [], 'assumes': [], 'outside': ['keys longer than the stated lengths', 'the baseline image corpus / shipped .sk files', 'layouts of the remaining families'],
}
def queries(tier):
    qs = []
    mur = list(range(0, 18)) + [31, 32, 33] + ([24, 47, 48, 49] if tier == 'thorough' else [])
    xx = [0, 1, 2, 3, 4, 5, 6, 7] + ([8, 12, 16, 31] if tier == 'thorough' else [])   # >= 32 bytes (stripe loop): no verdict in 1500 s
    for l in mur:
        qs.append(Q(f'murmur_len{l:02d}', 'hashes', 'c10_hash.c', defs={'WHICH': 0, 'LEN': l, 'VERIF_UF_MUL': None}, c_defs={'VERIF_UF_MUL': None}, tu_defs={'__OPT': '-O0'}, unwind=40, timeout=(240 if tier == 'quick' else 1500), native_vectors=300))
    for l in xx:
        qs.append(Q(f'xxhash_len{l:02d}', 'hashes', 'c10_hash.c', defs={'WHICH': 1, 'LEN': l, 'VERIF_UF_MUL': None}, object_bits=12, c_defs={'VERIF_UF_MUL': None}, unwind=80, timeout=(240 if tier == 'quick' else 1500), native_vectors=300, mem_gb=(8 if tier == 'quick' else 28)))
    qs.append(Q('seed_hash', 'hashes', 'c10_hash.c', defs={'WHICH': 2, 'LEN': 8, 'VERIF_UF_MUL': None}, c_defs={'VERIF_UF_MUL': None}, tu_defs={'__OPT': '-O0'}, unwind=40, timeout=(240 if tier == 'quick' else 1500), native_vectors=300))
    # documented layout: complete legacy / current compact-theta images written from the layout (kinds 1, 2, 4) or by the real writer (3)
    for (kind, n, est) in [(1, 0, 0), (1, 2, 0), (1, 1, 1), (2, 0, 0), (2, 2, 0), (2, 1, 1), (3, 0, 0), (3, 1, 0), (3, 2, 0), (4, 1, 1), (4, 2, 1), (4, 2, 0)]:
        for mode in (0, 1):
            qs.append(Q(f'theta_layout_v{kind}_n{n}_e{est}_mode{mode}', 'theta_serde', 'c11_theta.c', defs={'KIND': kind, 'N': n, 'EST': est, 'M': 0, 'MODE': mode, 'CORRUPT': -1, 'FULL': None},
                        unwind=6, unwindset={'^(harness|put64|put32|w_cts_serialize|w_cts_make|verif_mem.*|verif_new.*)$': 70}, timeout=(200 if tier == 'quick' else 900), native_vectors=50, c_defs={'VERIF_NEW_CAPN': 8}, mem_gb=16))
    # array-of-doubles tuple family: image written by the real serializer vs the documented layout, then read back by the real reader
    for (ne, nv) in [(0, 1), (0, 3), (1, 1), (1, 2), (2, 1)]:
        qs.append(Q(f'aod_layout_ne{ne}_nv{nv}', 'serde_aod', 'c10_aod.c', defs={'NE': ne, 'NV': nv}, unwind=10, unwindset={'^(harness|le|emit.*|w_aod_.*|verif_mem.*|verif_new.*)$': 140},
                    timeout=(240 if tier == 'quick' else 1200), native_vectors=200, c_defs={'VERIF_NEW_CAPN': 64, 'VERIF_VEC_CAP': 8}, mem_gb=10))
    return qs
