META = {
 'manifest': {'text': 'Bounded symbolic model checking of one update(key, value) of the real update_tuple_sketch<uint32> with a non-commutative policy from table states of concrete occupancy (symbolic keys, summaries, theta, seed, hash): the retained key set follows the Theta rule, the updated key gets policy(previous summary, value) (create() for a new key), every other key keeps its summary through insert / resize / rebuild moves. Tuple set operations on two compact operands built from parts (symbolic hashes, thetas, summaries; <= 2 entries each): A-not-B, intersection and a unit-level union select keys exactly as the Theta definition and carry the summaries the policy prescribes (3 * first + second in presentation order; A-not-B keeps the summary of A); the intersection also over a summary type with real move semantics (a moved-from summary is visibly clobbered).',
              'note': 'hash = arbitrary function; tables of 2..8 slots via the private constructor; compact() / filter() of update sketches (no verdict), unions of more than 1 + 1 entries, array-of-doubles and user types with move semantics are outside the claim'},
 'functions_encoded': ['update_tuple_sketch::update(uint64_t, U) / update(const void*, size_t, U), begin/end', 'tuple_a_not_b::compute -> theta_set_difference_base<pair>::compute', 'tuple_intersection::update/get_result -> theta_intersection_base<pair>', 'tuple_union::update/get_result -> theta_union_base<pair> (unit-level table)', 'compact_tuple_sketch 5-arg constructor + iterators', 'theta_update_sketch_base<pair<uint64,uint32>, pair_extract_key>::find/insert/resize/rebuild/consolidate_non_empty', 'std::nth_element over pairs', ],
 'bounds': 'lg_nom 1..2 (tables 2, 4, 8 slots), every occupancy mask for <= 4 slots and sampled masks for 8, one symbolic step; set operations: 1-2 entries per operand, union 1 + 1 on a 4-slot unit-level table',
 'stubs': ['MurmurHash3_x64_128 -> harness model (update-step queries)', 'std::vector<pair<uint64,uint32>>::_M_realloc_insert -> fixed-capacity model (set-operation queries)', 'resize()/rebuild()/vector growth/nth_element in intersection and union set-operation queries -> assert-unreachable cuts discharged by the solver'], 'assumes': ['every pre-state key is found by the table lookup in its slot'],
 'outside': ['compact() / filter()', 'set operations with more than 2 entries per operand, update-sketch operands, ordered results', 'array_tuple_sketch', 'summary types with real move semantics outside the intersection queries', 'string keys'],
}
def queries(tier):
    import itertools
    qs = []
    caps = {(1,1):1,(2,1):3,(1,2):1,(2,2):2,(3,2):7}
    for lgn in (1, 2):
        for lgc in range(1, lgn + 2):
            size, cap = 1 << lgc, caps[(lgc, lgn)]
            for num in range(0, cap + 1):
                rebuild = (num == cap and lgc == lgn + 1); resize = (num == cap and lgc <= lgn)
                if size == 8 or (tier == 'quick' and rebuild and size > 4): continue   # 8-slot tables and compact()/filter() (vector<pair> growth is not modelled): no verdict in 600 s
                allm = [sum(1 << i for i in c) for c in itertools.combinations(range(size), num)]
                ms = allm if (size <= 4 and tier == 'thorough') else [allm[len(allm) // 2]] + ([allm[0]] if len(allm) > 1 and tier == 'thorough' else [])
                for m in ms:
                    for rf in ([1, 2] if resize else ([0] if lgc == lgn + 1 else [1])):
                        d = {'LGC': lgc, 'LGN': lgn, 'RF': rf, 'NUM': num, 'MASK': m}
                        # ALSO_COMPACT (compact() + filter() on the post-state) was tried on 2- and 4-slot tables: symex of std::sort over pairs + filter's growth did not finish in 250 s
                        qs.append(Q(f'tuple_step_lgc{lgc}_lgn{lgn}_rf{rf}_m{m:02x}', 'tuple', 'c13_tuple_step.c', defs=d, tu_defs={'VERIF_STUB_HASH': None},
                                    unwind=(2 << lgn) + 2, unwindset={'^(verif_hash128|hm_key_u64|harness|verif_mem(set|cpy)_.*|verif_new_.*)$': 42},
                                    timeout=((900 if rebuild else 300) if tier == 'quick' else 1500), native_vectors=300, c_defs={'VERIF_NEW_CAPN': 40, 'VERIF_VEC_CAP': (2 << lgn)}, mem_gb=(10 if tier == 'quick' else 28)))
    # tuple set operations on compact operands built from parts (symbolic hashes, thetas, summaries)
    for (op, na, nb, ao, bo, ro) in [(2, 1, 1, 1, 1, 0), (2, 2, 1, 0, 1, 0), (2, 2, 2, 0, 1, 0), (1, 1, 1, 1, 1, 0), (1, 2, 2, 1, 1, 0), (1, 2, 1, 0, 1, 0), (0, 1, 1, 1, 1, 0)]:   # unions of 2+1 / 2+2 entries (8-slot table): symex did not finish in 300 s
        cd = {'VERIF_NEW_CAPN': 16, 'VERIF_VEC_CAP': 8}
        # union / intersection tables are sized so that <= 4 keys never reach resize() / rebuild() / vector growth / trimming: cut, the solver proves it (as in C02)
        if op == 1: cd.update({'VERIF_CUT_THETA_RESIZE': None, 'VERIF_CUT_THETA_REBUILD': None, 'VERIF_CUT_VECTOR_REALLOC': None, 'VERIF_NEW_CAPN': 8})
        if op == 0: cd.update({'VERIF_CUT_THETA_RESIZE': None, 'VERIF_CUT_THETA_REBUILD': None, 'VERIF_CUT_VECTOR_REALLOC': None, 'VERIF_CUT_INTROSELECT': None, 'VERIF_CUT_SHRINK_TO_FIT': None, 'VERIF_NEW_CAPN': 8})
        qs.append(Q(f'tuple_setop_op{op}_a{na}{"o" if ao else "u"}_b{nb}{"o" if bo else "u"}_r{ro}', 'tuple_setops', 'c13_setop.c', defs={'OP': op, 'NA': na, 'NB': nb, 'AORD': ao, 'BORD': bo, 'RORD': ro, 'ULG': (2 if na + nb <= 2 else 3)},
                    unwind=max(na + nb, 2) + 2, unwindset={'^(verif_new_.*|harness|make|idx|verif_mem(set|cpy|move).*)$': 20, 'update|find|realloc_insert': 10, 'introsort_loop': 2},
                    timeout=(400 if tier == 'quick' else 1500), native_vectors=300, c_defs=cd, mem_gb=(10 if tier == 'quick' else 28)))
    # the same set operations over a summary type with REAL move semantics (a moved-from summary is visibly clobbered): intersection
    for (op, na, nb, ao, bo, ro) in [(1, 1, 1, 1, 1, 0)] + ([(1, 2, 2, 1, 1, 0)] if tier == 'thorough' else []):   # a-not-b over this type: result vector growth (not a pair of scalars, not modelled): no verdict in 300 s
        cd = {'VERIF_NEW_CAPN': 16, 'VERIF_VEC_CAP': 8}
        if op == 1: cd.update({'VERIF_CUT_THETA_RESIZE': None, 'VERIF_CUT_THETA_REBUILD': None, 'VERIF_CUT_VECTOR_REALLOC': None, 'VERIF_NEW_CAPN': 8})
        qs.append(Q(f'tuple_setop_mv_op{op}_a{na}{"o" if ao else "u"}_b{nb}{"o" if bo else "u"}_r{ro}', 'tuple_setops', 'c13_setop.c', defs={'OP': op, 'NA': na, 'NB': nb, 'AORD': ao, 'BORD': bo, 'RORD': ro, 'ULG': 2},
                    tu_defs={'SUMMARY_MOVE': None}, unwind=max(na + nb, 2) + 2, unwindset={'^(verif_new_.*|harness|make|idx|verif_mem(set|cpy|move).*)$': 20, 'update|find|realloc_insert': 10, 'introsort_loop': 2},
                    timeout=(600 if tier == 'quick' else 1500), native_vectors=300, c_defs=cd, mem_gb=(10 if tier == 'quick' else 28)))
    return qs
