META = {
 'manifest': {'text': 'Bounded symbolic model checking, at the unit level only, of the sparse-mode representation of the CPC coupon matrix: one maybe_insert / maybe_delete step of the real u32_table (pair table, lg_k = 4 pairs) with a symbolic pair from concrete table states whose probe clusters wrap around the table end and sit at the grow / shrink triggers: the table stays exactly the pair set (novelty / presence reported correctly, every other pair still found through the probe sequence, item count == occupied slots == set size) through rebuilds and cluster re-insertion.',
              'note': 'ONLY the pair table: the sketch-level clauses (coupon count over hashed streams, flavors hybrid / pinned / sliding, window moves, union with reduce_k, lossless compression, estimator state) did not reach a verdict (harness/c05_cpc.c: only the first update of a fresh sketch is decidable) and are outside the claim'},
 'functions_encoded': ['u32_table::maybe_insert / maybe_delete / lookup / must_insert / rebuild / get_num_items / get_slots'],
 'bounds': 'tables of 4 and 8 slots (lg_size 2, 3), 10 valid bits, concrete prefixes of 1..5 pairs, one symbolic pair 0..1023',
 'stubs': [], 'assumes': [],
 'outside': ['cpc_sketch update paths, flavors, window', 'cpc_union', 'cpc_compressor (lossless compression)', 'estimators', 'tables with more than 8 slots'],
}
def queries(tier):
    qs = []
    def p(row, col): return f'{(row << 6) | col}u,'
    # probe = item >> (10 - lg): lg 2 -> row >> 2 ; lg 3 -> row >> 1
    prefixes = {
        'wrap4':   (2, p(15, 1) + p(14, 2)),                 # 4 slots: both home slot 3 -> cluster wraps to slot 0; third insert crosses 3/4 * 4 -> grow
        'grow4':   (2, p(0, 1) + p(5, 2) + p(9, 3)),         # 3 of 4 slots used: a new pair triggers rebuild to 8
        'wrap8':   (3, p(15, 1) + p(15, 2) + p(14, 3) + p(0, 4) + p(6, 5)),   # 8 slots: cluster 7,0,1,(0) wrapping; 5 items (6th crosses 3/4 * 8 -> grow)
        'shrink8': (3, p(3, 1) + p(15, 9)),                  # 8 slots, 2 items: deleting one falls below 1/4 * 8 -> shrink to 4
        'one4':    (2, p(7, 7)),
    }
    for name, (lg, pf) in prefixes.items():
        for op in (0, 1):
            qs.append(Q(f'cpc_table_{name}_op{op}', 'cpc_table', 'c05_table.c', defs={'LG': lg, 'OP': op, 'PREFIX': pf}, unwind=18, unwindset={'^(harness|verif_mem.*|verif_new.*)$': 40},
                        timeout=(300 if tier == 'quick' else 1200), native_vectors=300, c_defs={'VERIF_NEW_CAPN': 40, 'VERIF_VEC_CAP': 20}, mem_gb=10))
    return qs
