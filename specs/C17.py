META = {
 'manifest': {'text': 'Bounded symbolic model checking of the bookkeeping clauses of the real tdigest<double> before its first compression: for up to 4 updates with arbitrary 64-bit patterns (finite, infinite, NaN) total weight = number of accepted values, min / max exactly the extremes, NaN ignored, empty-digest queries refused. The bytes-path reader and header accounting are decided in C11 / C09.',
              'note': 'compress() (greedy clustering through the asin/log scale function) is cut with an assert-unreachable that the solver discharges; rank / quantile / CDF / PMF monotonicity, centroid bound and accuracy need the floating-point merge loop and are outside the claim'},
 'functions_encoded': ['tdigest::update, get_total_weight, get_min_value, get_max_value, is_empty, ctor'],
 'bounds': 'k = 10, <= 4 updates with symbolic 64-bit patterns, no compression',
 'stubs': ['tdigest::compress -> assert-unreachable cut'], 'assumes': [], 'outside': ['everything after the first compress(): rank, quantile, CDF/PMF, centroid count, merge', 'float instantiation'],
}
def queries(tier):
    return [Q(f'td_bookkeeping_nv{nv}', 'tdigest', 'c17_td.c', defs={'NV': nv}, unwind=12, unwindset={'^(harness|verif_mem.*|verif_new.*)$': 260}, timeout=(300 if tier == 'quick' else 1500),
              native_vectors=300, c_defs={'VERIF_NEW_CAPN': 250, 'VERIF_VEC_CAP': 130, 'VERIF_CUT_TD_COMPRESS': None}, mem_gb=10) for nv in ((0, 1, 2, 3) if tier == 'quick' else (0, 1, 2, 3, 4))]
