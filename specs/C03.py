META = {
 'manifest': {'text': 'Bounded symbolic model checking of the real HLL register arrays (Hll4Array with aux exception map, Hll6Array, Hll8Array) at lg_k = 4, started full-size: after up to 3 symbolic coupons (any slot, any 6-bit value) the logical register of every slot equals the per-slot maximum for all three widths, emptiness and HLL_4 cur_min bookkeeping are consistent, and converting to another width keeps the registers.',
              'note': 'estimator accumulators (hipAndKxQIncrementalUpdate, floating point) are skipped by a stub and not claimed; unit level: coupons are fed to the array classes directly (hashing / coupon extraction, list and set mode, promotion and the estimators are not encoded); one cur_min shift (0 -> 1) is covered from a concrete 16-coupon prefix only; conversion constructors are checked on concrete prefixes (no symbolic coupon)'},
 'functions_encoded': ['Hll4Array::couponUpdate/internalHll4Update/getSlot/putSlot, AuxHashMap::mustAdd/mustReplace/mustFindValueFor/newAuxHashMap', 'Hll6Array::couponUpdate/internalHll6Update', 'Hll8Array::couponUpdate/internalHll8Update', 'HllArray::hipAndKxQIncrementalUpdate, isEmpty, const_iterator + get_value', 'Hll4/6/8Array(const HllArray&) conversion constructors'],
 'bounds': 'lg_k = 4 (16 slots), a concrete prefix of coupons (none / aux exceptions / mixed) followed by 1 symbolic coupon (quick) or 2-3 (thorough), values 1..63',
 'stubs': ['HllArray::hipAndKxQIncrementalUpdate -> no-op (estimator state is outside the claim)', 'Hll4Array::shiftToBiggerCurMin -> assert-unreachable cut (discharged by the solver) in every query except the *_shift ones, which execute the real function'], 'assumes': [], 'outside': ['coupon = f(MurmurHash3) extraction and every update overload', 'LIST / SET modes and promotion', 'shiftToBiggerCurMin from a symbolic state (only the concrete shift prefix is covered)', 'conversion of a symbolic state', 'estimators and bounds (floating point; C06)', 'lg_k > 4'],
}
def queries(tier):
    qs = []
    def cp(slot, val): return f'{(val << 26) | slot}u,'
    prefixes = {'none': '', 'aux': cp(3, 20) + cp(5, 2), 'aux2': cp(3, 20) + cp(3, 40) + cp(7, 16) + cp(0, 1), 'mixed': cp(1, 14) + cp(2, 15) + cp(9, 63) + cp(9, 1) + cp(15, 33),
                # all 16 slots raised: the last coupon triggers shiftToBiggerCurMin (cur_min 0 -> 1) with a live aux exception (slot 3) and one nibble above cur_min (slot 5)
                'shift': ''.join(cp(i, 20 if i == 3 else 2 if i == 5 else 1) for i in range(16))}
    for (nc, pfx, conv) in [(0, 'none', 0), (1, 'none', 0), (1, 'aux', 0), (1, 'aux2', 0), (1, 'mixed', 0), (0, 'shift', 1), (1, 'shift', 0), (0, 'aux2', 1), (0, 'mixed', 1)] + ([(2, 'aux', 0)] if tier == 'thorough' else []):   # 2-3 free coupons from an empty array and the conversion constructors: no verdict in 1800 s
        d = {'NC': nc, 'PREFIX': prefixes[pfx]}
        if conv: d['CONVERT'] = None
        qs.append(Q(f'hll_arrays_c{nc}_{pfx}' + ('_conv' if conv else ''), 'hll_arrays', 'c03_hll_arrays.c', defs=d, tu_defs={'__OPT': '-O1 -fno-inline-functions -fno-inline -fno-pic'}, unwind=20,
                    unwindset={'^(harness|verif_mem.*|verif_new.*)$': 40}, timeout=(400 if tier == 'quick' else 1800), native_vectors=300,
                    c_defs={'VERIF_NEW_CAPN': 40, 'VERIF_VEC_CAP': 8, **({} if pfx == 'shift' else {'VERIF_CUT_HLL4_SHIFT': None}), 'VERIF_SKIP_HLL_KXQ': None}, slice_formula=True, mem_gb=(10 if tier == 'quick' else 28)))
    return qs
