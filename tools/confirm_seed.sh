#!/bin/bash
# confirm_seed.sh <ID> <src-dir with patch.diff demo.cpp run_demo.sh> <ctest -R regex> : confirm a seeded defect in a scratch worktree
# (demo passes on the pristine tree, fails with the patch; the listed unit-test executables still pass with the patch)
ID=$1; SRC=$2; RX=$3
WT=/tmp/cw/$ID; LOG=/tmp/cw/$ID.log
mkdir -p /tmp/cw; rm -rf $WT; git -C /repo worktree prune; git -C /repo worktree add --detach $WT HEAD >/dev/null 2>&1 || { echo "worktree failed"; exit 2; }
{
echo "== demo on pristine tree"; bash $SRC/run_demo.sh $WT > /tmp/cw/$ID.demo0.out 2>&1; D0=$?; echo "exit=$D0"
git -C $WT apply $SRC/patch.diff || { echo "PATCH DOES NOT APPLY"; exit 2; }
echo "== demo with patch"; bash $SRC/run_demo.sh $WT > /tmp/cw/$ID.demo1.out 2>&1; D1=$?; echo "exit=$D1"; tail -3 /tmp/cw/$ID.demo1.out
echo "== unit tests with patch ($RX)"
cmake -S $WT -B $WT/_build -G Ninja -DCMAKE_BUILD_TYPE=Release -DFETCHCONTENT_TRY_FIND_PACKAGE_MODE=ALWAYS > /tmp/cw/$ID.cmake.out 2>&1
TG=$(echo "$RX" | tr '|' ' ')
nice -n 10 ninja -C $WT/_build -j6 $TG > /tmp/cw/$ID.build.out 2>&1; B=$?; echo "build exit=$B"
nice -n 10 ctest --test-dir $WT/_build -R "$RX" --timeout 1800 > /tmp/cw/$ID.ctest.out 2>&1; T=$?; tail -4 /tmp/cw/$ID.ctest.out
echo "RESULT id=$ID demo_pristine=$D0 demo_patched=$D1 build=$B tests=$T"
} > $LOG 2>&1
git -C /repo worktree remove --force $WT
tail -1 $LOG
