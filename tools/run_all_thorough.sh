#!/bin/bash
# run every claimed thorough check; summary in $OUT (default /tmp/allthorough.log); per-property cap 100 min
OUT=${OUT:-/tmp/allthorough.log}
for id in ${IDS:-$(python3 -c "import json;print(' '.join(c['property_id'] for c in json.load(open('MANIFEST.json'))['checks']))")}; do
  t0=$(date +%s); VERIF_NO_HUNT=1 timeout 6000 python3 run.py $id --tier thorough --no-evidence > /tmp/thor_$id.log 2>&1; rc=$?; t1=$(date +%s)
  echo "$id rc=$rc wall=$((t1-t0))s $(tail -1 /tmp/thor_$id.log | cut -c1-160)" >> $OUT
done
echo ALLDONE >> $OUT
