#!/bin/bash
# run every claimed quick check on the current tree, one after the other; summary in /tmp/allquick.log
cd /verif
for id in $(python3 -c "import json;print(' '.join(c['property_id'] for c in json.load(open('MANIFEST.json'))['checks']))"); do
  t0=$(date +%s); python3 run.py $id --tier quick > /tmp/quick_$id.log 2>&1; rc=$?; t1=$(date +%s)
  echo "$id rc=$rc wall=$((t1-t0))s $(tail -1 /tmp/quick_$id.log | cut -c1-160)" >> /tmp/allquick.log
done
echo ALLDONE >> /tmp/allquick.log
