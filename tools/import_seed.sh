#!/bin/bash
# import_seed.sh <ID> <name> "<needs>" "<detected_by>" : copy a confirmed seeded defect into /verif/seeded/<name>/
ID=$1; NAME=$2; NEEDS=$3; DET=$4; SRC=/tmp/wt/$ID-out; D=/verif/seeded/$NAME
mkdir -p $D; cp $SRC/patch.diff $SRC/demo.cpp $SRC/run_demo.sh $D/; cp $SRC/NOTES.md $D/NOTES.md 2>/dev/null
CONF=$(grep "RESULT id=$ID" /tmp/cw/$ID.log 2>/dev/null | tail -1)
python3 - "$ID" "$NAME" "$NEEDS" "$DET" "$CONF" <<'P'
import json,sys
i,name,needs,det,conf=sys.argv[1:6]
json.dump({'property':i,'name':name,'breaks':i,'needs_to_manifest':needs,
 'confirmed':{'how':'tools/confirm_seed.sh in a scratch worktree of /repo HEAD: run_demo.sh on the pristine tree (exit 0), with patch.diff applied (exit != 0), family unit-test executables rebuilt and run with the patch (all pass)','result':conf},
 'detected_by':det,'source':'independent sub-agent given only the property text and a scratch worktree'},open(f'/verif/seeded/{name}/meta.json','w'),indent=1)
P
echo imported $NAME
